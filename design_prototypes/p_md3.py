import warnings, numpy as np, pandas as pd, random, math
warnings.simplefilter("ignore")
from sklearn.base import BaseEstimator, ClassifierMixin
from menelaus.concept_drift import MD3
LOG={}
class Stub(BaseEstimator, ClassifierMixin):
    def __init__(self, thr=0.0, log_id=0): self.thr=thr; self.log_id=log_id
    def fit(self,X,y):
        LOG.setdefault(self.log_id,[]).append(("fit",tuple(np.asarray(X)[:,2].astype(int)))); self.classes_=np.array([0,1]); return self
    def predict(self,X):
        X=np.asarray(X); LOG.setdefault(self.log_id,[]).append(("predict",tuple(X[:,2].astype(int)))); return (X[:,0]>self.thr).astype(int)
def margin(det,sample,clf): return 1 if abs(sample[1])<=1 else 0
def model_stats(df,folds):
    mds=[];accs=[]
    for ids in folds:
        sub=df[df["id"].isin(ids)]
        mds.append(np.mean([1 if abs(v)<=1 else 0 for v in sub["m"]])); accs.append(np.mean((sub["x"]>0).astype(int)==sub["y"]))
    return np.mean(mds),np.std(mds),np.mean(accs),np.std(accs)
rnd=random.Random(0); nr=np.random.RandomState(0); bad=0; stats={"warn":0,"drift":0,"ruledout":0}
for trial in range(200):
    N=rnd.randint(4,20); k=rnd.randint(2,min(5,N)); L=rnd.randint(k,8); sens=rnd.choice([0.5,1,2])
    ref=pd.DataFrame({"x":nr.normal(size=N),"m":nr.normal(scale=1.5,size=N),"id":np.arange(N)}); ref["y"]=((ref["x"]>0).astype(int) ^ (nr.rand(N)<0.2)).astype(int)
    LOG.clear(); clf=Stub(0.0,log_id=trial)
    det=MD3(clf,margin_calculation_function=margin,sensitivity=sens,k=k,oracle_data_length_required=L)
    det.set_reference(ref,target_name="y")
    log=LOG[trial]; folds=[ids for kind,ids in log if kind=="predict"]
    # validity: folds partition ids, sizes differ <=1
    allids=sorted(i for f in folds for i in f)
    okp = allids==list(range(N)) and len(folds)==k and max(map(len,folds))-min(map(len,folds))<=1
    md,mds,acc,accs=model_stats(ref,folds)
    rd=det.reference_distribution
    ok = okp and rd["len"]==N and abs(rd["md"]-md)<1e-12 and abs(rd["md_std"]-mds)<1e-12 and abs(rd["acc"]-acc)<1e-12 and abs(rd["acc_std"]-accs)<1e-12
    # run protocol
    cur=md; ff=(N-1)/N; waiting=False; nid=1000
    for step in range(40):
        if not waiting:
            m=rnd.choice([0.0,3.0]); X=pd.DataFrame({"x":[nr.normal()],"m":[m],"id":[nid]}); nid+=1
            det.update(X); cur=ff*cur+(1-ff)*(1 if abs(m)<=1 else 0)
            w=abs(cur-md)>sens*mds
            ok=ok and abs(det.curr_margin_density-cur)<1e-12 and (det.drift_state=="warning")==w and det.waiting_for_oracle==w
            if w: waiting=True; labels=[]; stats["warn"]+=1
        else:
            try: det.update(X); ok=False
            except ValueError: pass
            x=nr.normal(); good=rnd.random()<0.5; y=int(x>0) if good else 1-int(x>0)
            row=pd.DataFrame({"x":[x],"m":[0.0],"id":[nid],"y":[y]}); nid+=1; labels.append(row)
            LOG[trial].clear(); det.give_oracle_label(row)
            if len(labels)==L:
                o=pd.concat(labels,ignore_index=True); a=np.mean((o["x"]>0).astype(int)==o["y"])
                dr=(acc-a)>sens*accs
                ok=ok and (det.drift_state=="drift")==dr and det.waiting_for_oracle==False and det.oracle_data is None
                stats["drift" if dr else "ruledout"]+=1
                log=LOG[trial]; preds=[ids for kind,ids in log if kind=="predict"]
                folds=preds[1:]  # first predict is on oracle data with main clf? (log_id same after clone)
                N=L; md,mds,acc,accs=model_stats(o,folds); ff=(N-1)/N; cur=md; waiting=False
                rd=det.reference_distribution
                ok=ok and abs(rd["md"]-md)<1e-12 and abs(rd["acc"]-acc)<1e-12 and abs(rd["acc_std"]-accs)<1e-12 and rd["len"]==L
            else:
                ok=ok and det.drift_state is None and det.waiting_for_oracle and len(det.oracle_data)==len(labels)
        if not ok: break
    if not ok: bad+=1; print("MISMATCH trial",trial,step,N,k,L)
print("bad",bad,stats)
