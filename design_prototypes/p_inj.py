import warnings, numpy as np, pandas as pd, random, copy
warnings.simplefilter("ignore")
from menelaus.injection import *
from collections import Counter
rnd=random.Random(0); nr=np.random.RandomState(0)
problems=Counter(); ex={}
def mkdata(n,nf,ncls,kind):
    feats=np.round(nr.normal(size=(n,nf))*8)/8
    cls=nr.randint(0,ncls,size=n).astype(float)
    arr=np.hstack([feats,cls.reshape(-1,1)])
    if kind=="nd": return arr, list(range(nf)), nf
    names=[f"f{i}" for i in range(nf)]+["y"]
    return pd.DataFrame(arr,columns=names), names[:nf], "y"
def asarr(x): return x.to_numpy() if isinstance(x,pd.DataFrame) else x
for t in range(4000):
    kind=rnd.choice(["nd","df"]); n=rnd.randint(3,20); nf=rnd.randint(2,4); ncls=rnd.randint(1,3)
    data,fcols,ycol=mkdata(n,nf,ncls,kind)
    a=rnd.randint(0,n); b=rnd.randint(a,n)
    orig=copy.deepcopy(data); A=asarr(orig)
    which=rnd.choice(["shift","swap","lswap","ljoin","brown","lprob","dir","cover"])
    try:
        if which=="shift":
            c=rnd.choice(fcols); sf=rnd.choice([0.5,-1,2]); out=FeatureShiftInjector()(data,a,b,c,sf,alpha=0.25)
            ci=fcols.index(c); O=asarr(out); exp=A.copy()
            if b>a: exp[a:b,ci]+= sf*(0.25+A[a:b,ci].mean())
            ok=np.allclose(O,exp,atol=1e-12)
        elif which=="swap":
            c1,c2=rnd.choice(fcols),rnd.choice(fcols); out=FeatureSwapInjector()(data,a,b,c1,c2); O=asarr(out); exp=A.copy(); i1,i2=fcols.index(c1),fcols.index(c2)
            exp[a:b,[i1,i2]]=A[a:b,[i2,i1]]; ok=np.array_equal(O,exp)
            back=FeatureSwapInjector()(out,a,b,c1,c2); ok=ok and np.array_equal(asarr(back),A)
        elif which=="lswap":
            k1,k2=float(rnd.randint(0,2)),float(rnd.randint(0,2)); out=LabelSwapInjector()(data,a,b,ycol,k1,k2); O=asarr(out); exp=A.copy()
            for r in range(a,b):
                if A[r,-1]==k1: exp[r,-1]=k2
                elif A[r,-1]==k2: exp[r,-1]=k1
            ok=np.array_equal(O,exp); back=LabelSwapInjector()(out,a,b,ycol,k1,k2); ok=ok and np.array_equal(asarr(back),A)
        elif which=="ljoin":
            k1,k2,k3=float(rnd.randint(0,2)),float(rnd.randint(0,2)),float(rnd.randint(0,5)); out=LabelJoinInjector()(data,a,b,ycol,k1,k2,k3); O=asarr(out); exp=A.copy()
            for r in range(a,b):
                if A[r,-1] in (k1,k2): exp[r,-1]=k3
            ok=np.array_equal(O,exp)
        elif which=="brown":
            c=rnd.choice(fcols); out=BrownianNoiseInjector()(data,a,b,c,x0=1.5,random_state=t); O=asarr(out); ci=fcols.index(c)
            D=O-A; mask=np.ones_like(D,bool); mask[a:b,ci]=False; ok=np.array_equal(D[mask],np.zeros(mask.sum()))
            w=D[a:b,ci]
            if b>a: ok=ok and abs(w[0]-1.5)<1e-12 and np.allclose(np.abs(np.diff(w)),1/np.sqrt(b-a),atol=1e-9)
        elif which in("lprob","dir"):
            present=sorted(set(A[:,-1]))
            if which=="lprob":
                cp={present[0]:rnd.choice([0.25,0.5,1.0])} if rnd.random()<.7 else {}
                cp0=dict(cp); np.random.seed(t); out=LabelProbabilityInjector()(data,a,b,ycol,cp)
                if cp!=cp0: problems[("lprob","dict-mutated")]+=1
            else:
                al={k:rnd.choice([1,4]) for k in present}; np.random.seed(t); out=LabelDirichletInjector()(data,a,b,ycol,al)
            O=asarr(out); ok=np.array_equal(O[:a],A[:a]) and np.array_equal(O[b:],A[b:])
            win={tuple(r) for r in A[a:b]}; ok=ok and all(tuple(r) in win for r in O[a:b])
        elif which=="cover":
            # per-group counts
            grp=Counter(A[:,-1]); g=len(grp); ss=rnd.randint(g, max(g, g*min(grp.values())))
            nper=ss//g
            out=FeatureCoverInjector()(data,ycol,ss,random_state=t); O=asarr(out)
            ok=O.shape==(nper*g,A.shape[1]-1)
            rows=Counter(tuple(r[:-1]) for r in A); outc=Counter(tuple(r) for r in O); ok=ok and all(outc[k]<=rows[k] for k in outc)
        # generic
        ok=ok and type(out)==type(data) and (which=="cover" or asarr(out).shape==A.shape)
        if isinstance(data,pd.DataFrame) and which!="cover": ok=ok and list(out.columns)==list(orig.columns)
        same = data.equals(orig) if isinstance(data,pd.DataFrame) else np.array_equal(data,orig)
        if not same: problems[(which,"input-mutated",kind)]+=1
        if not ok: problems[(which,"wrong-output",kind, "empty" if a==b else "full" if (a==0 and b==n) else "")]+=1; ex.setdefault((which,kind),(a,b,n))
        if np.shares_memory(asarr(out),asarr(data)): problems[(which,"shares-memory",kind)]+=1
    except Exception as e:
        problems[(which,"exception",type(e).__name__,str(e)[:60],kind,"empty" if a==b else "")]+=1
for k,v in sorted(problems.items(),key=str): print(v,k)
print(ex)
