import warnings, numpy as np, random, math
from fractions import Fraction as F
warnings.simplefilter("ignore")
from menelaus.concept_drift import LinearFourRates
RATES=["tpr","tnr","ppv","npv"]
class Model:
    def __init__(s,eta,wl,dl,burn,mc,sub,tracked,rv):
        s.eta,s.wl,s.dl,s.burn,s.mc,s.sub,s.tracked,s.rv=eta,wl,dl,burn,mc,sub,tracked,rv
        s.cache={}; s.total=0; s.all=[]; s.reset()
    def reset(s):
        s.C={(0,0):1,(0,1):1,(1,0):1,(1,1):1}  # (pred,true)
        s.R={r:0.5 for r in RATES}; s.n=0; s.recs=[None,None]; s.state=None
    def rates(s):
        tn,fn,fp,tp=s.C[(0,0)],s.C[(0,1)],s.C[(1,0)],s.C[(1,1)]
        return {"tpr":(tp,tp+fn),"tnr":(tn,tn+fp),"ppv":(tp,fp+tp),"npv":(tn,tn+fn)}
    def bounds(s,p,N):
        key=(round(np.float64(p),s.rv),N)
        if key not in s.cache:
            w=np.array([s.eta**(N-i) for i in range(1,N+1)])
            draws=np.random.binomial(1,p,size=(s.mc,N))
            R=(1-s.eta)*(draws*w).sum(axis=1)
            s.cache[key]=(np.percentile(R,s.wl*100),np.percentile(R,100-s.wl*100),np.percentile(R,s.dl*100),np.percentile(R,100-s.dl*100))
        return s.cache[key]
    def step(s,yt,yp):
        if s.state=="drift": s.reset()
        s.total+=1; s.n+=1
        s.C[(yp,yt)]+=1
        infl={"tpr":yt==1,"tnr":yt==0,"ppv":yp==1,"npv":yp==0}
        warn=alarm=False; rt=s.rates(); minm=1
        for r in s.tracked:
            if infl[r]: s.R[r]=s.eta*s.R[r]+(1-s.eta)*(1 if yt==yp else 0)
            if s.n>s.burn and s.n%s.sub==0:
                num,den=rt[r]; lw,uw,ld,ud=s.bounds(num/den,den)
                x=s.R[r]
                minm=min(minm,abs(x-lw),abs(x-uw),abs(x-ld),abs(x-ud))
                warn|=(x<lw) or (x>uw); alarm|=(x<ld) or (x>ud)
        s.state="drift" if alarm else "warning" if warn else None
        s.all.append(s.state)
        if s.state=="warning" and s.recs[0] is None: s.recs[0]=s.total-1
        if s.state=="drift":
            s.recs[1]=s.total-1
            if s.recs[0] is None: s.recs[0]=s.total-1
        return minm
def run(seed):
    rnd=random.Random(seed)
    tracked=[r for r in RATES if rnd.random()<0.7]
    p=dict(time_decay_factor=rnd.choice([0.5,0.8,0.9,0.95]),warning_level=rnd.choice([0.1,0.2,0.3]),detect_level=rnd.choice([0.01,0.05,0.1]),burn_in=rnd.randint(0,15),num_mc=rnd.randint(5,40),subsample=rnd.randint(1,3),rates_tracked=tracked,round_val=rnd.choice([1,2,4]))
    det=LinearFourRates(**p); mod=Model(p['time_decay_factor'],p['warning_level'],p['detect_level'],p['burn_in'],p['num_mc'],p['subsample'],tracked,p['round_val'])
    probs=[rnd.random() for _ in range(4)]
    nd=0
    for i in range(rnd.randint(30,120)):
        if rnd.random()<0.03: probs=[rnd.random() for _ in range(4)]
        yt=int(rnd.random()<probs[0]); yp=int(rnd.random()<(probs[1] if yt else probs[2]))
        np.random.seed(seed*1000+i); det.update(yt,yp)
        np.random.seed(seed*1000+i); mm=mod.step(yt,yp)
        if mm<1e-9: return ("ambig",seed,i)
        if det.drift_state!=mod.state or list(det.retraining_recs)!=mod.recs or det.all_drift_states!=mod.all or det.samples_since_reset!=mod.n:
            return ("MISMATCH",seed,i,p,det.drift_state,mod.state,det.retraining_recs,mod.recs)
        nd+=mod.state=="drift"
    return ("ok",nd)
from collections import Counter
c=Counter()
for s in range(150):
    r=run(s); c[(r[0],min(r[1],3) if r[0]=="ok" else None)]+=1
    if r[0]!="ok": print(r)
print(c)
