import warnings, numpy as np, random, math, scipy.stats
warnings.simplefilter("ignore")
from menelaus.data_drift import HDDDM, CDBD

def hell(p,q):
    P=p/p.sum(); Q=q/q.sum(); return math.sqrt(float(np.sum((np.sqrt(Q)-np.sqrt(P))**2)))
def js(p,q):
    P=p/p.sum(); Q=q/q.sum(); M=(P+Q)/2
    def kl(a,b):
        m=a>0; return float(np.sum(a[m]*np.log(a[m]/b[m])))
    return math.sqrt(max(0.0,0.5*kl(P,M)+0.5*kl(Q,M)))
class Model:
    def __init__(s,div,db,stat,sig):
        s.div=hell if div=="H" else js; s.db=db; s.stat=stat; s.sig=sig; s.total=0
        s.dist={}; s.eps={}; s.thr={}
    def set_reference(s,X):
        s.ref=np.array(X,float); s._reset()
    def _reset(s):
        s.k=0; s.epsl=[]; s.prev=None; s.e0=None
        if s.db==1:
            h=len(s.ref)//2; proxy=s.ref[h:]; s.ref=s.ref[:h]; s.step(proxy,None)
    def distance(s,X):
        bins=int(math.floor(math.sqrt(len(s.ref)))); ds=[]
        for f in range(X.shape[1]):
            lo=min(s.ref[:,f].min(),X[:,f].min()); hi=max(s.ref[:,f].max(),X[:,f].max())
            r=np.histogram(s.ref[:,f],bins=bins,range=(lo,hi))[0].astype(float); t=np.histogram(X[:,f],bins=bins,range=(lo,hi))[0].astype(float)
            ds.append(s.div(r,t))
        return sum(ds)/len(ds), ds
    def step(s,X,e0_obs):
        # returns (drift, distance, eps, beta)
        X=np.array(X,float)
        if getattr(s,'pending_drift',False):
            s.pending_drift=False; s._reset()
        s.total+=1; s.k+=1
        d,fd=s.distance(X); s.dist[s.total]=d
        eps=beta=None; drift=False
        if s.k>=2:
            eps=abs(d-s.prev); s.eps[s.total]=eps
            hist=list(s.epsl)   # epsilons of epoch before this one
            can = (s.db!=3 and s.k>=2) or (s.db==3 and s.k>=3)
            if can:
                if s.db!=3 and s.k==2:
                    hist=[e0_obs]
                ds=s.k-1
                ehat=sum(hist)/ds
                sd=math.sqrt(sum((e-ehat)**2 for e in hist)/ds)
                if s.stat=="tstat":
                    t=scipy.stats.t.ppf(1-s.sig/2,len(s.ref)+len(X)-2); beta=ehat+t*sd/math.sqrt(ds)
                else: beta=ehat+s.sig*sd
                s.thr[s.total]=beta
                drift=eps>beta
            s.epsl.append(eps)
        if drift:
            s.ref=X; s.pending_drift=True
        else:
            s.prev=d; s.ref=np.vstack([s.ref,X])
        return drift,d,eps,beta

def run(seed):
    rnd=random.Random(seed); nr=np.random.RandomState(seed)
    db=rnd.choice([1,2,3]); stat=rnd.choice(["tstat","stdev"]); sig=rnd.choice([0.05,0.2,0.5]) if stat=="tstat" else rnd.choice([0.0,0.5,1.0,2.0])
    nf=rnd.randint(1,3); cls=rnd.choice(["H","KL"])
    det=HDDDM(detect_batch=db,divergence=cls,statistic=stat,significance=sig,subsets=rnd.randint(2,5))
    mod=Model(cls,db,stat,sig)
    mk=lambda loc: np.round(nr.normal(loc,1,size=(rnd.randint(6,40),nf))*16)/16
    loc=0; B0=mk(loc)
    np.random.seed(seed); det.set_reference(B0); mod.set_reference(B0)
    nd=0
    for i in range(rnd.randint(4,12)):
        if rnd.random()<0.3: loc+=rnd.choice([-3,3,6])
        B=mk(loc)
        np.random.seed(seed+i+1); det.update(B)
        # e0 observed from thresholds at epoch's 2nd batch
        e0=det.thresholds.get(det.total_batches) if (db!=3 and det.batches_since_reset==2) else None
        drift,d,eps,beta=mod.step(B,e0)
        ok = (det.drift_state=="drift")==drift and abs(det.current_distance-d)<1e-9 and det.total_batches==mod.total and det.batches_since_reset==mod.k
        if eps is not None: ok=ok and abs(det.epsilon_values[det.total_batches]-eps)<1e-9
        if beta is not None: ok=ok and abs(det.thresholds[det.total_batches]-beta)<1e-9*(1+abs(beta))
        else: ok = ok and det.total_batches not in det.thresholds
        if not ok: return ("MISMATCH",seed,db,stat,i,det.drift_state,drift,det.current_distance,d,det.epsilon_values.get(det.total_batches),eps,det.thresholds.get(det.total_batches),beta,det.batches_since_reset,mod.k)
        nd+=drift
    return ("ok",nd,db)
from collections import Counter
c=Counter(); 
for s in range(600):
    r=run(s); c[(r[0],r[2] if r[0]=="ok" else None, min(r[1],3) if r[0]=="ok" else None)]+=1
    if r[0]!="ok": print(r)
print(sorted(c.items(),key=str))
