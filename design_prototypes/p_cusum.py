import warnings, numpy as np, random, math
from fractions import Fraction as F
warnings.simplefilter("ignore")
from menelaus.change_detection import PageHinkley, CUSUM
TOL=1e-9
class MC:
    def __init__(s,target,sd,burn,delta,thr,direction):
        s.mu,s.sd,s.burn,s.delta,s.thr,s.dir=target,sd,burn,delta,thr,direction; s.hist=[]; s.n=0; s.sh=s.sl=0.0; s.state=None
    def step(s,x):
        if s.state=="drift":
            w=s.hist[-s.burn:]; s.mu=math.fsum(w)/len(w); s.sd=math.sqrt(math.fsum((a-s.mu)**2 for a in w)/len(w)); s.n=0; s.sh=s.sl=0.0; s.state=None
        s.n+=1; s.hist.append(x)
        if s.mu is None and s.n==s.burn:
            w=s.hist; s.mu=math.fsum(w)/len(w); s.sd=math.sqrt(math.fsum((a-s.mu)**2 for a in w)/len(w))
        if s.mu is not None:
            if s.sd==0: return "degenerate"
            z=(x-s.mu)/s.sd; s.sh=max(0.0,s.sh+z-s.delta); s.sl=max(0.0,s.sl-z-s.delta)
        amb=False
        if s.n>s.burn:
            up=s.sh>s.thr; lo=s.sl>s.thr
            amb=abs(s.sh-s.thr)<TOL*(1+s.thr) or abs(s.sl-s.thr)<TOL*(1+s.thr)
            if (s.dir is None and (up or lo)) or (s.dir=="positive" and up) or (s.dir=="negative" and lo): s.state="drift"
        return amb
class MPH:
    def __init__(s,delta,thr,burn,direction): s.delta,s.thr,s.burn,s.dir=F(delta),F(thr),burn,direction; s.reset()
    def reset(s): s.n=0; s.mean=F(0); s.sum=F(0); s.min=F(0); s.max=F(0); s.state=None
    def step(s,x):
        if s.state=="drift": s.reset()
        x=F(x); s.n+=1; s.mean+=(x-s.mean)/s.n; s.sum+=x-s.mean-s.delta; s.min=min(s.min,s.sum); s.max=max(s.max,s.sum)
        ph=s.sum-s.min if s.dir=="positive" else s.max-s.sum; th=s.thr*s.mean
        if ph>th and s.n>s.burn: s.state="drift"
        return abs(float(ph-th))<TOL*(1+abs(float(th)))
def stream(rnd):
    xs=[]
    for _ in range(rnd.randint(3,8)):
        lvl=rnd.randint(-20,20); sp=rnd.choice([1,2,8])
        xs+=[(lvl*16+rnd.randint(-sp*16,sp*16))/16 for _ in range(rnd.randint(8,60))]
    return xs
from collections import Counter
c=Counter()
for seed in range(800):
    rnd=random.Random(seed); xs=stream(rnd)
    burn=rnd.randint(2,12); known=rnd.random()<0.3
    p=dict(target=(1.5 if known else None),sd_hat=(2.0 if known else None),burn_in=burn,delta=rnd.choice([0.005,0.5,0.0]),threshold=rnd.choice([1,3,5,8]),direction=rnd.choice([None,"positive","negative"]))
    det=CUSUM(**p); mod=MC(p['target'],p['sd_hat'],burn,p['delta'],p['threshold'],p['direction']); nd=0; res="ok"
    for i,x in enumerate(xs):
        try: det.update(x)
        except ValueError as e: res="valerr"; break
        a=mod.step(x)
        if a=="degenerate": res="degenerate"; break
        if a: res="ambig"; break
        if det.drift_state!=mod.state: res=("MISMATCH",seed,i,det.drift_state,mod.state); print("CUSUM",res,p); break
        nd+=mod.state=="drift"
    c[("CUSUM",res if isinstance(res,str) else "MISMATCH", min(nd,3) if res=="ok" else None)]+=1
    p=dict(delta=rnd.choice([0.01,0.5,0]),threshold=rnd.choice([0.5,2,5,20]),burn_in=rnd.randint(0,10),direction=rnd.choice(["positive","negative"]))
    det=PageHinkley(**p); mod=MPH(p['delta'],p['threshold'],p['burn_in'],p['direction']); nd=0; res="ok"
    for i,x in enumerate(xs):
        det.update(x); a=mod.step(x)
        if a: res="ambig"; break
        if det.drift_state!=mod.state: res="MISMATCH"; print("PH",seed,i,det.drift_state,mod.state,p); break
        nd+=mod.state=="drift"
    c[("PH",res,min(nd,3) if res=="ok" else None)]+=1
for k,v in sorted(c.items(),key=str): print(k,v)
