import warnings, numpy as np, pandas as pd, random, copy
warnings.simplefilter("ignore")
from menelaus.change_detection import ADWIN, CUSUM, PageHinkley
from menelaus.concept_drift import DDM, STEPD
from menelaus.data_drift import KdqTreeStreaming, KdqTreeBatch, HDDDM, CDBD, NNDVI, PCACD
from collections import Counter
SPECS={
 "ADWIN":(lambda:ADWIN(new_sample_thresh=2,window_size_thresh=3,subwindow_size_thresh=1,delta=.5),"sx",1),
 "CUSUM":(lambda:CUSUM(burn_in=3,threshold=1.5),"sx",1),
 "PH":(lambda:PageHinkley(burn_in=2,threshold=1),"sx",1),
 "KdqS":(lambda:KdqTreeStreaming(window_size=4,bootstrap_samples=4,count_ubound=1,alpha=.3,persistence=.0),"sx",2),
 "PCACD":(lambda:PCACD(window_size=10,sample_period=.2),"sx",3),
 "KdqB":(lambda:KdqTreeBatch(bootstrap_samples=4,count_ubound=2,alpha=.3),"bx",2),
 "HDDDM1":(lambda:HDDDM(detect_batch=1,subsets=2),"bx",2),"HDDDM3":(lambda:HDDDM(detect_batch=3,statistic="stdev",significance=.1),"bx",2),"CDBD":(lambda:CDBD(detect_batch=2,subsets=2),"bx",1),
 "NNDVI":(lambda:NNDVI(k_nn=2,sampling_times=6,alpha=.3),"bx",2),
}
def obs(d):
    o=[d.drift_state, getattr(d,"total_samples",None), getattr(d,"samples_since_reset",None),getattr(d,"total_batches",None),getattr(d,"batches_since_reset",None)]
    if hasattr(d,"retraining_recs"): o.append(tuple(d.retraining_recs))
    if hasattr(d,"current_distance"): o.append(round(float(d.current_distance),12))
    if hasattr(d,"mean"): o.append(round(float(d.mean()),12))
    return o
def mkobj(arr,cont):
    if cont=="ndC": return np.array(arr,order="C")
    if cont=="ndF": return np.array(arr,order="F")
    if cont=="view":
        big=np.zeros((arr.shape[0]*2,arr.shape[1]*2)); big[::2,::2]=arr; return big[::2,::2]
    if cont=="df": return pd.DataFrame(np.array(arr),columns=list("abcd")[:arr.shape[1]])
def scribble(o):
    if isinstance(o,pd.DataFrame):
        for i in range(o.shape[0]):
            for j in range(o.shape[1]): o.iloc[i,j]=1e6+i+j
    else: o[...]=1e6
rnd=random.Random(1); nr=np.random.RandomState(1); problems=Counter()
for trial in range(1500):
    name=rnd.choice(list(SPECS)); ctor,kind,nc=SPECS[name]
    L=rnd.randint(4,14)
    loc=0; items=[]
    for i in range(L):
        if rnd.random()<.3: loc+=rnd.choice([-4,4])
        items.append(np.round(nr.normal(loc,1,size=((1 if kind=="sx" else rnd.randint(8,14)),nc))*8)/8)
    conts=[rnd.choice(["ndC","ndF","view","df"]) for _ in range(L)]
    def run(scrib):
        d=ctor(); tr=[]
        for i,(it,c) in enumerate(zip(items,conts)):
            o=mkobj(it,c); snap=copy.deepcopy(o)
            np.random.seed(50+i)
            if kind=="bx" and i==0 and not name.startswith("KdqB"): d.set_reference(o)
            else: d.update(o)
            same=o.equals(snap) if isinstance(o,pd.DataFrame) else np.array_equal(o,snap)
            if not same: problems[(name,"input-mutated",c)]+=1
            if scrib: scribble(o)
            tr.append(obs(d))
        return tr
    try:
        a=run(False); b=run(True)
        if a!=b:
            k=next(i for i in range(L) if a[i]!=b[i]); problems[(name,"aliasing", tuple(sorted(set(conts[:k+1]))))]+=1
    except Exception as e: problems[(name,"exception",type(e).__name__,str(e)[:50])]+=1
for k,v in sorted(problems.items(),key=str): print(v,k)
print("done")
