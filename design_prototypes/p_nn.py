import warnings, numpy as np, random, math
from scipy.stats import norm
warnings.simplefilter("ignore")
from menelaus.data_drift import NNDVI, KdqTreeStreaming
from menelaus.partitioners import NNSpacePartitioner
from menelaus.concept_drift import DDM, STEPD
from menelaus.change_detection import PageHinkley
from menelaus.ensemble import StreamingEnsemble, SimpleMajorityElection, MinimumApprovalElection
from collections import Counter
res=Counter()
def model_dist(s1,s2,k):
    D=np.unique(np.vstack([s1,s2]),axis=0); S1={tuple(r) for r in s1}; S2={tuple(r) for r in s2}
    v1=np.array([1.0 if tuple(r) in S1 else 0 for r in D]); v2=np.array([1.0 if tuple(r) in S2 else 0 for r in D])
    return D,v1,v2
def nnps(M,v1,v2):
    a=v1@M; b=v2@M; return float(np.sum(np.abs(a-b)/(a+b))/len(v1))
for seed in range(400):
    rnd=random.Random(seed); nr=np.random.RandomState(seed)
    d=rnd.randint(1,3); n1=rnd.randint(3,20); n2=rnd.randint(3,20)
    s1=nr.randint(0,6,size=(n1,d)).astype(float); s2=nr.randint(0,6,size=(n2,d)).astype(float)+rnd.choice([0,0,2])
    D,v1,v2=model_dist(s1,s2,0); k=rnd.randint(1,min(5,len(D)))
    p=NNSpacePartitioner(k); p.build(s1,s2)
    ok=np.array_equal(p.D,D) and np.array_equal(p.v1,v1) and np.array_equal(p.v2,v2)
    A=p.adjacency_matrix; dm=np.linalg.norm(D[:,None,:]-D[None,:,:],axis=2)
    for i in range(len(D)):
        inc=A[i]>0; ok=ok and inc.sum()==k and inc[i] and (dm[i][inc].max()<=dm[i][~inc].min()+1e-12 if (~inc).any() else True)
    dd=NNSpacePartitioner.compute_nnps_distance(p.nnps_matrix,p.v1,p.v2)
    q=NNSpacePartitioner(k); q.build(s2,s1); dd2=NNSpacePartitioner.compute_nnps_distance(q.nnps_matrix,q.v1,q.v2)
    ok=ok and abs(dd-nnps(A,v1,v2))<1e-12 and abs(dd-dd2)<1e-12 and 0<=dd<=1
    res[("NNSP","ok" if ok else "MISMATCH","unequal" if n1!=n2 else "equal")]+=1
# NNDVI decisions
for seed in range(150):
    rnd=random.Random(seed); nr=np.random.RandomState(seed)
    k=rnd.randint(1,4); T=rnd.randint(2,20); alpha=rnd.choice([.05,.2,.4]); det=NNDVI(k_nn=k,sampling_times=T,alpha=alpha)
    mk=lambda loc: np.round(nr.normal(loc,1,size=(rnd.randint(6,20),2))*4)/4
    ref=mk(0); det.set_reference(ref); loc=0; status="ok"; nd=0
    for i in range(rnd.randint(3,8)):
        if rnd.random()<.4: loc+=rnd.choice([-2,2])
        X=mk(loc); np.random.seed(seed*50+i); det.update(X)
        np.random.seed(seed*50+i)
        if len(np.unique(np.vstack([ref,X]),axis=0))<k: status="dom"; break
        p=NNSpacePartitioner(k); p.build(ref,X); D,v1,v2=model_dist(ref,X,k); M=p.nnps_matrix
        dact=nnps(M,v1,v2); ds=[]
        for _ in range(T):
            s=np.random.permutation(v1); ds.append(nnps(M,s,1-s))
        mu=np.mean(ds); sd=np.std(ds); th=norm.ppf(1-alpha,mu,sd)
        if abs(dact-th)<1e-9: status="ambig"; break
        exp="drift" if dact>th else None
        if exp=="drift": ref=X; nd+=1
        if det.drift_state!=exp or not np.array_equal(det.reference_batch,ref): status="MISMATCH"; print("NNDVI",seed,i,det.drift_state,exp,dact,th); break
    res[("NNDVI",status,min(nd,3))]+=1
# ensemble twin with seeded member subclass
def seeded(cls):
    class S(cls):
        def update(self,*a,**k):
            self._step=getattr(self,"_step",0)+1; np.random.seed(self._seedbase+self._step); return super().update(*a,**k)
    S.__name__="Seeded"+cls.__name__; return S
for seed in range(60):
    rnd=random.Random(seed); nr=np.random.RandomState(seed)
    def members():
        m={"ddm":DDM(n_threshold=3),"kdq":seeded(KdqTreeStreaming)(window_size=5,bootstrap_samples=4,count_ubound=1,alpha=.3,persistence=0.1),"ph":PageHinkley(burn_in=3,threshold=1),"stepd":STEPD(window_size=3,alpha_warning=.3,alpha_drift=.1)}
        m["kdq"]._seedbase=seed*777; return m
    sel={"ph":(lambda X: X[:,[1]]),"kdq":(lambda X: X[:,:2])}
    ens=StreamingEnsemble(members(),MinimumApprovalElection(2),sel); tw=members(); ok=True; loc=0
    for i in range(80):
        if rnd.random()<.06: loc+=rnd.choice([-3,3])
        X=np.round(nr.normal(loc,1,size=(1,3))*8)/8; yt=int(nr.rand()<.5); yp=yt if nr.rand()<(.9 if loc==0 else .4) else 1-yt
        ens.update(X,yt,yp)
        for name,t in tw.items():
            Xs=sel.get(name,lambda z:z)(X)
            t.update(X=Xs,y_true=yt,y_pred=yp)
        st={n:t.drift_state for n,t in tw.items()}
        exp="drift" if sum(v=="drift" for v in st.values())>=2 else None
        ok=ok and ens.drift_states==st and ens.drift_state==exp and ens.total_samples==i+1 and all(getattr(ens.detectors[n],"total_samples")==tw[n].total_samples and ens.detectors[n].samples_since_reset==tw[n].samples_since_reset for n in tw)
    res[("ENS","ok" if ok else "MISMATCH")]+=1
for k,v in sorted(res.items(),key=str): print(v,k)
