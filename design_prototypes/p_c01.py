import warnings, numpy as np, pandas as pd, random
warnings.simplefilter("ignore")
from menelaus.change_detection import ADWIN, CUSUM, PageHinkley
from menelaus.concept_drift import DDM, EDDM, STEPD, LinearFourRates, ADWINAccuracy
from menelaus.data_drift import KdqTreeStreaming, KdqTreeBatch, HDDDM, CDBD, NNDVI, PCACD
from collections import Counter
res=Counter()
def chk(name,cond,msg):
    if not cond: res[(name,"VIOL",msg)]+=1
    return cond
for seed in range(400):
    rnd=random.Random(seed); nr=np.random.RandomState(seed)
    # streams
    xs=[]; ys=[]; loc=0; pe=.1
    for i in range(rnd.randint(60,300)):
        if rnd.random()<.03: loc+=rnd.choice([-4,4,8]); pe=rnd.choice([.05,.3,.6])
        xs.append(round(nr.normal(loc,1)*16)/16); ys.append(int(nr.rand()<pe))
    nst=rnd.randint(1,8); wst=rnd.randint(0,12)
    burn=rnd.randint(2,8); nt=rnd.randint(1,8); w=rnd.randint(1,6)
    dets={
     "ADWIN":(ADWIN(delta=.3,max_buckets=rnd.randint(1,4),new_sample_thresh=nst,window_size_thresh=wst,subwindow_size_thresh=rnd.randint(1,3)),"x"),
     "ADWINAcc":(ADWINAccuracy(delta=.3,max_buckets=rnd.randint(1,4),new_sample_thresh=nst,window_size_thresh=wst,subwindow_size_thresh=rnd.randint(1,3)),"y"),
     "CUSUM":(CUSUM(burn_in=burn,threshold=2),"x"),"PH":(PageHinkley(burn_in=burn,threshold=.5),"x"),
     "DDM":(DDM(n_threshold=nt),"y"),"EDDM":(EDDM(n_threshold=nt),"y"),"STEPD":(STEPD(window_size=w,alpha_warning=.2,alpha_drift=.05),"y"),
     "LFR":(LinearFourRates(burn_in=burn,num_mc=8,detect_level=.1,warning_level=.3),"y"),
    }
    for name,(d,kind) in dets.items():
        prev_state=None; since=0; nd=0; W=0; nerr=0
        for i in range(len(xs)):
            np.random.seed(seed*1000+i)
            try:
                if kind=="x": d.update(xs[i])
                else: d.update(1,1-ys[i])
            except ValueError as e:
                if name=="CUSUM" and "Standard deviation" in str(e): break
                raise
            restart = (prev_state=="drift") or (name.startswith("ADWIN") and prev_state is not None)
            since = 1 if restart else since+1
            if restart: nerr=0
            if kind=="y" and ys[i]: nerr+=1
            ok=chk(name,d.drift_state in (None,"warning","drift"),"state") and chk(name,d.total_samples==i+1,"total") and chk(name,d.samples_since_reset==since,f"since")
            st=d.drift_state
            if st is not None:
                if name in("CUSUM","PH","LFR"): chk(name,since>burn,"warmup")
                if name=="DDM": chk(name,since>=nt,"warmup")
                if name=="EDDM": chk(name,nerr>=nt,"warmup")
                if name=="STEPD": chk(name,since>=2*w,"warmup")
            if name.startswith("ADWIN"):
                W+=1
                if st=="drift":
                    chk(name,(i+1)%nst==0 and W>wst,"warmup"); r=d.retraining_recs; W=r[1]-r[0]+1
            if hasattr(d,"retraining_recs"):
                r=list(d.retraining_recs)
                if st=="drift": chk(name, r[0] is not None and r[0]<=r[1]==i,"recs-at-drift")
                if prev_state=="drift" and st is None: chk(name, r==[None,None],"recs-cleared")
            nd+=st=="drift"; prev_state=st
        res[(name,"drifts",min(nd,3))]+=1
for k,v in sorted(res.items(),key=str): print(v,k)
