import warnings, numpy as np, pandas as pd, random, copy
warnings.simplefilter("ignore")
from menelaus.change_detection import CUSUM, PageHinkley
from menelaus.concept_drift import DDM, EDDM, STEPD
from menelaus.data_drift import KdqTreeStreaming, KdqTreeBatch, HDDDM, CDBD, NNDVI
from collections import Counter
res=Counter()
def recs_shift(r,off): return [None if v is None else int(v)+off for v in r]
for seed in range(300):
    rnd=random.Random(seed); nr=np.random.RandomState(seed)
    xs=[]; ys=[]; loc=0; pe=.1
    for i in range(rnd.randint(80,300)):
        if rnd.random()<.04: loc+=rnd.choice([-4,4,8]); pe=rnd.choice([.05,.3,.6])
        xs.append(round(nr.normal(loc,1)*16)/16); ys.append(int(nr.rand()<pe))
    burn=rnd.randint(2,8); nt=rnd.randint(1,8); w=rnd.randint(1,6); W=rnd.randint(3,10)
    mk={
     "DDM":(lambda:DDM(n_threshold=nt),"y"),"EDDM":(lambda:EDDM(n_threshold=nt),"y"),"STEPD":(lambda:STEPD(window_size=w,alpha_warning=.2,alpha_drift=.05),"y"),
     "PH":(lambda:PageHinkley(burn_in=burn,threshold=.5,direction=rnd.choice(["positive","negative"])),"x"),
     "CUSUM":(lambda:CUSUM(burn_in=burn,threshold=2,direction=None),"x"),
     "KdqS":(lambda:KdqTreeStreaming(window_size=W,bootstrap_samples=5,count_ubound=1,alpha=.3,persistence=.1),"x2"),
    }
    for name,(ctor,kind) in mk.items():
        state=rnd.getstate(); d=ctor(); rnd.setstate(state)
        twin=None; off=0; nd=0; ok=True
        hist=[]
        for i in range(len(xs)):
            item = xs[i] if kind=="x" else (np.array([[xs[i], xs[i-1] if i else 0.0]]) if kind=="x2" else None)
            was_drift = d.drift_state=="drift"
            if was_drift:
                rnd.setstate(state)
                if name=="CUSUM":
                    win=hist[-burn:]; twin=CUSUM(target=np.mean(win),sd_hat=np.std(win),burn_in=burn,threshold=2,direction=None)
                else: twin=ctor()
                rnd.setstate(state); off=i
            np.random.seed(seed*1000+i)
            try:
                if kind=="y": d.update(1,1-ys[i])
                else: d.update(item)
            except ValueError: break
            hist.append(np.array([[xs[i]]]))
            if twin is not None:
                np.random.seed(seed*1000+i)
                try:
                    if kind=="y": twin.update(1,1-ys[i])
                    else: twin.update(item)
                except ValueError: break
                same = d.drift_state==twin.drift_state and d.samples_since_reset==twin.samples_since_reset
                if hasattr(d,"retraining_recs"): same=same and recs_shift(d.retraining_recs,0)==recs_shift(twin.retraining_recs,off)
                if name=="PH": same=same and d.to_dataframe().map(lambda v: float(np.asarray(v).ravel()[0])).equals(twin.to_dataframe().map(lambda v: float(np.asarray(v).ravel()[0])))
                if not same: ok=False; res[(name,"TWIN-DIFF")]+=1; break
            nd+=d.drift_state=="drift"
        res[(name,"ok" if ok else "bad",min(nd,3))]+=1
    # batch detectors
    bmk={"HDDDM1":lambda:HDDDM(detect_batch=1,subsets=3,statistic="stdev",significance=.5),"HDDDM2":lambda:HDDDM(detect_batch=2,subsets=3),"HDDDM3":lambda:HDDDM(detect_batch=3,statistic="stdev",significance=.2),
         "CDBD2":lambda:CDBD(detect_batch=2,subsets=3),"KdqB":lambda:KdqTreeBatch(bootstrap_samples=5,count_ubound=2,alpha=.3),"NNDVI":lambda:NNDVI(k_nn=2,sampling_times=6,alpha=.3)}
    for name,ctor in bmk.items():
        nc=1 if name.startswith("CDBD") else 2
        loc=0; Bs=[]
        for i in range(rnd.randint(6,14)):
            if rnd.random()<.3: loc+=rnd.choice([-3,3])
            Bs.append(np.round(nr.normal(loc,1,size=(rnd.randint(8,20),nc))*8)/8)
        d=ctor(); np.random.seed(seed); d.set_reference(Bs[0]); twin=None; ok=True; nd=0; off=0
        sr_at=rnd.randint(2,len(Bs)-1)  # explicit set_reference position
        for i in range(1,len(Bs)):
            was=d.drift_state=="drift"; last=Bs[i-1]
            np.random.seed(seed*100+i)
            if i==sr_at:
                d.set_reference(Bs[i]); np.random.seed(seed*100+i); twin=ctor(); twin.set_reference(Bs[i]); off=d.total_batches-twin.total_batches; continue
            d.update(Bs[i])
            if was:
                np.random.seed(seed*100+i); twin=ctor(); twin.set_reference(last); off=None
                twin.update(Bs[i])
            elif twin is not None:
                np.random.seed(seed*100+i); twin.update(Bs[i])
            if twin is not None:
                same=d.drift_state==twin.drift_state
                if hasattr(d,"current_distance"):
                    same=same and d.current_distance==twin.current_distance and d.thresholds.get(d.total_batches)==twin.thresholds.get(twin.total_batches) and d.epsilon_values.get(d.total_batches)==twin.epsilon_values.get(twin.total_batches) and d.reference_n==twin.reference_n
                if name=="NNDVI": same=same and np.array_equal(d.reference_batch,twin.reference_batch)
                if not same: ok=False; res[(name,"TWIN-DIFF","after-setref" if off is not None else "after-drift")]+=1; break
            nd+=d.drift_state=="drift"
        res[(name,"ok" if ok else "bad",min(nd,3))]+=1
for k,v in sorted(res.items(),key=str): print(v,k)
