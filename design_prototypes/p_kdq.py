import warnings, numpy as np, random, math
from scipy.stats import norm
warnings.simplefilter("ignore")
from menelaus.data_drift import KdqTreeStreaming, KdqTreeBatch, NNDVI
from collections import Counter
# independent kdq tree
class Node: pass
def build(data,cu,mincut,depth=0):
    n,m=data.shape; nd=Node(); nd.n=n; nd.axis=None
    ax=depth%m; lo=data[:,ax].min(); hi=data[:,ax].max(); mid=lo+(hi-lo)/2
    if n<=cu or np.unique(data).size<=cu or (mid-lo)<=mincut[ax]: return nd
    nd.axis=ax; nd.mid=mid
    nd.l=build(data[data[:,ax]<=mid],cu,mincut,depth+1); nd.r=build(data[data[:,ax]>mid],cu,mincut,depth+1); return nd
def leaves(nd): return [nd] if nd.axis is None else leaves(nd.l)+leaves(nd.r)
def leaf_index(root,x):
    # returns index in left-to-right order
    ls=leaves(root); nd=root
    while nd.axis is not None: nd = nd.l if x[nd.axis]<=nd.mid else nd.r
    return ls.index(nd)
def counts(root,data):
    c=np.zeros(len(leaves(root)),int)
    for x in data: c[leaf_index(root,x)]+=1
    return c
def dist(c): c=np.asarray(c,float); return (c+0.5)/(c.sum()+len(c)/2)
def kl(p,q): return float(np.sum(p*np.log(p/q)))
def crit(ref_counts,n,B,alpha):
    p=dist(ref_counts); ds=[]
    for _ in range(B):
        s=np.random.choice(len(p),size=2*n,p=p)
        ds.append(kl(dist(np.bincount(s[:n],minlength=len(p))),dist(np.bincount(s[n:],minlength=len(p)))))
    return np.quantile(ds,1-alpha,method="nearest")
TOL=1e-9
res=Counter()
for seed in range(300):
    rnd=random.Random(seed); nr=np.random.RandomState(seed)
    d=rnd.randint(1,3); cu=rnd.randint(1,6); B=rnd.randint(3,15); alpha=rnd.choice([.05,.2,.4]); 
    mincut=[int(2e-10*1)]*d
    # ---- batch
    det=KdqTreeBatch(alpha=alpha,bootstrap_samples=B,count_ubound=cu)
    loc=0; ref=None; nd_=0; status="ok"
    for i in range(rnd.randint(4,9)):
        if rnd.random()<.35: loc+=rnd.choice([-3,3])
        X=np.round(nr.normal(loc,1,size=(rnd.randint(10,40),d))*16)/16
        np.random.seed(seed*100+i); det.update(X)
        np.random.seed(seed*100+i)
        if ref is None or pending:
            r= X if ref is None else pending_data
            root=build(r,cu,mincut); rc=counts(root,r); c=crit(rc,len(r),B,alpha); first = ref is None; ref=r; pending=False
            if first: exp=None; 
        if not (i==0):
            tc=counts(root,X); k=kl(dist(rc),dist(tc))
            if abs(k-c)<TOL: status="ambig"; break
            exp="drift" if k>c else None
            if exp=="drift": pending=True; pending_data=X; nd_+=1
        else: exp=None; pending=False
        if det.drift_state!=exp: status="MISMATCH"; print("KdqB",seed,i,det.drift_state,exp); break
    res[("KdqB",status,min(nd_,3))]+=1
    # ---- streaming
    W=rnd.randint(4,15); pers=rnd.choice([0,.1,.3,.6])
    det=KdqTreeStreaming(window_size=W,persistence=pers,alpha=alpha,bootstrap_samples=B,count_ubound=cu)
    buf=[]; root=None; test=None; counter=0; nd_=0; status="ok"; state=None; interrupted=False; lastex=False; runs=0
    loc=0
    for i in range(W*rnd.randint(4,10)):
        r=rnd.random()
        if r<.05: loc=rnd.choice([0,0,4,-4])
        x=np.round(nr.normal(loc,1,size=(1,d))*16)/16
        np.random.seed(seed*1000+i); det.update(x)
        np.random.seed(seed*1000+i)
        if state=="drift": buf=[]; root=None; counter=0; state=None
        if root is None:
            buf.append(x[0])
            if len(buf)==W:
                r_=np.array(buf); root=build(r_,cu,mincut); rc=counts(root,r_); c=crit(rc,W,B,alpha); tc=np.zeros(len(rc),int); tn=0
        else:
            tc[leaf_index(root,x[0])]+=1; tn+=1
            if tn>=W:
                k=kl(dist(rc),dist(tc))
                if abs(k-c)<TOL: status="ambig"; break
                if k>c:
                    counter+=1; 
                    if not lastex: runs+=1
                    lastex=True
                    if counter>pers*W: state="drift"; nd_+=1
                else: counter=0; lastex=False
        if det.drift_state!=state: status="MISMATCH"; print("KdqS",seed,i,det.drift_state,state); break
    res[("KdqS",status,min(nd_,3),"multi-run" if runs>nd_+0 and runs>1 else "")]+=1
for k,v in sorted(res.items(),key=str): print(v,k)
