import itertools, copy
from types import SimpleNamespace as NS
from menelaus.ensemble import ConfirmedElection, SimpleMajorityElection, MinimumApprovalElection, OrderedApprovalElection
S=[None,"warning","drift"]
def dets(v): return [NS(drift_state=s) for s in v]
# stateless
tot=0
for n in range(0,7):
    for v in itertools.product(S,repeat=n):
        k=sum(s=="drift" for s in v); tot+=1
        assert SimpleMajorityElection()(dets(v))==("drift" if 2*k>n else None)
        for a in range(1,n+2):
            assert MinimumApprovalElection(a)(dets(v))==("drift" if k>=a else None)
            for c in range(0,n+2):
                assert OrderedApprovalElection(a,c)(dets(v))==("drift" if k>=a+c else None),(v,a,c)
print("stateless ok",tot)
# Confirmed: model = remaining wait per member (0 idle)
def model_step(rem,v,sens,wt):
    # rem[i] = number of further calls in which member i still votes (0 = idle)
    nd=nw=0; new=list(rem)
    for i,s in enumerate(v):
        if rem[i]==0:
            if s=="drift": nd+=1; new[i]=wt          # votes now, then wt further calls
            elif s=="warning": nw+=1
        else:
            if s=="warning": nw+=1                   # waiting time not used up
            else: nd+=1; new[i]=rem[i]-1
    ret="drift" if nd>=sens else "warning" if nd+nw>=sens else None
    return ret,tuple(new)
states=trans=0
for n in range(1,5):
    for wt in range(0,4):
        for sens in range(1,n+2):
            e0=ConfirmedElection(sens,wt); start=(e0,(0,)*n); seen={}; frontier=[start]
            key=lambda e: tuple(e.wait_period_counters) if e.wait_period_counters is not None else None
            seen[(key(e0),(0,)*n)]=1
            while frontier:
                e,rem=frontier.pop()
                for v in itertools.product(S,repeat=n):
                    e2=copy.deepcopy(e); r=e2(dets(v)); mr,rem2=model_step(rem,v,sens,wt); trans+=1
                    assert r==mr,(n,wt,sens,v,rem,e.wait_period_counters,r,mr)
                    assert all(c<=wt for c in e2.wait_period_counters)
                    # correspondence: counter c>0  <=> rem = wt - c + ... 
                    k=(key(e2),rem2)
                    if k not in seen: seen[k]=1; frontier.append((e2,rem2))
            states+=len(seen)
print("confirmed ok states",states,"transitions",trans)
