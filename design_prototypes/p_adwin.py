import warnings, numpy as np, random, math
from fractions import Fraction as F
warnings.simplefilter("ignore")
from menelaus.change_detection import ADWIN

class Model:
    def __init__(s, delta, M, nst, wst, sst, cons):
        s.delta,s.M,s.nst,s.wst,s.sst,s.cons=delta,M,nst,wst,sst,cons
        s.rows=[[]]; s.t=0
    def buckets_old_to_new(s):
        out=[]
        for i in range(len(s.rows)-1,-1,-1):
            for b in s.rows[i]: out.append(b)
        return out
    def window(s):
        return [x for b in s.buckets_old_to_new() for x in b]
    def add(s,x):
        s.t+=1
        s.rows[0].append([x])
        i=0
        while i<len(s.rows) and len(s.rows[i])==s.M+1:
            if i+1==len(s.rows): s.rows.append([])
            a=s.rows[i].pop(0); b=s.rows[i].pop(0)
            s.rows[i+1].append(a+b)
            i+=1
    def drop_oldest(s):
        i=len(s.rows)-1
        while not s.rows[i]: i-=1
        s.rows[i].pop(0)
        while len(s.rows)>1 and not s.rows[-1]: s.rows.pop()
    def eps(s,n0,n1,W,var):
        m=1/(n0-s.sst+1)+1/(n1-s.sst+1)
        if not s.cons:
            dp=math.log(2*math.log(W)/s.delta)
            return math.sqrt(2*m*var*dp)+(2/3)*m*dp
        dp=math.log(4*math.log(W)/s.delta)
        return math.sqrt(0.5*m*dp)
    def check(s):
        drift=False; minmargin=1e9
        w=s.window()
        if s.t % s.nst==0 and len(w)>s.wst:
            again=True
            while again:
                again=False
                bs=s.buckets_old_to_new(); w=[x for b in bs for x in b]; W=len(w)
                if W<2: break
                tot=sum(map(F,w)); mean=tot/W; var=float(sum((F(x)-mean)**2 for x in w)/W)
                n0=0; s0=F(0)
                for b in bs[:-1]:
                    n0+=len(b); s0+=sum(map(F,b)); n1=W-n0
                    if n0>=s.sst and n1>=s.sst:
                        d=abs(float(s0/n0-(tot-s0)/n1)); e=s.eps(n0,n1,W,var)
                        minmargin=min(minmargin,abs(d-e)/max(1,e))
                        if d>e:
                            s.drop_oldest(); drift=True; again=True; break
        return drift,minmargin

def run(seed):
    rnd=random.Random(seed)
    M=rnd.randint(2,5) if rnd.random()<0.8 else rnd.randint(1,1)
    p=dict(delta=rnd.choice([0.002,0.05,0.3,1.0,0.9]),max_buckets=M,new_sample_thresh=rnd.choice([1,2,3,5,8,32]),window_size_thresh=rnd.randint(0,20),subwindow_size_thresh=rnd.randint(1,6),conservative_bound=rnd.random()<0.3)
    det=ADWIN(**p); mod=Model(p['delta'],M,p['new_sample_thresh'],p['window_size_thresh'],p['subwindow_size_thresh'],p['conservative_bound'])
    xs=[]
    for _ in range(rnd.randint(2,6)):
        lvl=rnd.randint(-50,50); sp=rnd.choice([0,1,4,16])
        xs+=[ (lvl*16+rnd.randint(-sp*16,sp*16))/16 for _ in range(rnd.randint(5,80))]
    ndrift=0
    for i,x in enumerate(xs):
        det.update(x); mod.add(x); d,mm=mod.check()
        if mm<1e-7: return ("ambig",p,i)
        w=mod.window(); W=len(w)
        mean=sum(w)/W; var=sum((a-mean)**2 for a in w)/W
        ok=(det.drift_state=="drift")==d and abs(det.mean()-mean)<1e-8*(1+abs(mean)) and abs(det.variance()-var)<1e-7*(1+var)
        if d:
            ndrift+=1; ok=ok and tuple(det.retraining_recs)==(i+1-W,i)
        if not ok:
            return ("MISMATCH",p,i,det.drift_state,d,det.mean(),mean,det.variance(),var,det._window_size,W,det.retraining_recs)
    return ("ok",ndrift,M)
from collections import Counter
c=Counter(); bad=[]
for s in range(1500):
    r=run(s); c[(r[0], r[2] if r[0]=="ok" and r[2]==1 else None)]+=1
    if r[0]=="MISMATCH": bad.append(r)
print(c)
for b in bad[:6]: print(b)
print("mismatch M values:",Counter(b[1]['max_buckets'] for b in bad))
