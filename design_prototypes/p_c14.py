import warnings, numpy as np, pandas as pd, random, copy, traceback
warnings.simplefilter("ignore")
from menelaus.change_detection import ADWIN, CUSUM, PageHinkley
from menelaus.concept_drift import DDM, EDDM, STEPD, LinearFourRates, ADWINAccuracy
from menelaus.data_drift import KdqTreeStreaming, KdqTreeBatch, HDDDM, CDBD, NNDVI, PCACD
from collections import Counter
# detector specs: (ctor, kind, ncols)
SPECS={
 "ADWIN":(lambda:ADWIN(new_sample_thresh=2,window_size_thresh=3,subwindow_size_thresh=1,delta=.5),"sx",1),
 "CUSUM":(lambda:CUSUM(burn_in=3,threshold=2),"sx",1),
 "PH":(lambda:PageHinkley(burn_in=2,threshold=1),"sx",1),
 "DDM":(lambda:DDM(n_threshold=2),"sy",0),"EDDM":(lambda:EDDM(n_threshold=2),"sy",0),"STEPD":(lambda:STEPD(window_size=2),"sy",0),
 "LFR":(lambda:LinearFourRates(num_mc=5,burn_in=2),"sy",0),"ADWINAcc":(lambda:ADWINAccuracy(new_sample_thresh=2,window_size_thresh=3,subwindow_size_thresh=1,delta=.5),"sy",0),
 "KdqS":(lambda:KdqTreeStreaming(window_size=3,bootstrap_samples=3,count_ubound=1),"sx",2),
 "PCACD":(lambda:PCACD(window_size=10,sample_period=.2),"sx",3),
 "KdqB":(lambda:KdqTreeBatch(bootstrap_samples=3,count_ubound=2),"bx",2),
 "HDDDM":(lambda:HDDDM(detect_batch=2,subsets=2),"bx",2),"CDBD":(lambda:CDBD(detect_batch=3),"bx",1),
 "NNDVI":(lambda:NNDVI(k_nn=2,sampling_times=4),"bx",2),
}
def containers(kind,arr,names):
    # arr: 2-D ndarray (rows x cols)
    out={"nd2":lambda:np.array(arr),"df":lambda:pd.DataFrame(arr,columns=names),"list":lambda:arr.tolist()}
    if kind=="sx":
        out["nd1"]=lambda:np.array(arr[0])
        out["series"]=lambda:pd.Series(arr[0])
        out["list1"]=lambda:arr[0].tolist()
        if arr.shape[1]==1: out["scalar"]=lambda:float(arr[0,0])
    elif arr.shape[1]==1:
        out["nd1"]=lambda:np.array(arr[:,0]); out["series"]=lambda:pd.Series(arr[:,0]); out["list1"]=lambda:arr[:,0].tolist()
    return out
def obs(d):
    o=[d.drift_state, getattr(d,"total_samples",None), getattr(d,"samples_since_reset",None),getattr(d,"total_batches",None),getattr(d,"batches_since_reset",None)]
    if hasattr(d,"retraining_recs"): o.append(tuple(d.retraining_recs))
    if hasattr(d,"current_distance"): o.append(round(float(d.current_distance),12))
    return o
def call(d,kind,item,first,seed):
    np.random.seed(seed)
    if kind=="sy": d.update(*item)
    elif kind=="bx" and first and not isinstance(d,KdqTreeBatch): d.set_reference(item)
    else: d.update(item)
problems=Counter(); examples={}
rnd=random.Random(0); nr=np.random.RandomState(0)
for trial in range(6000):
    name=rnd.choice(list(SPECS)); ctor,kind,nc=SPECS[name]
    names=list("abcd")[:nc]
    L=rnd.randint(2,7)
    if kind=="sy": items=[(int(nr.rand()<.5),int(nr.rand()<.5)) for _ in range(L)]
    elif kind=="sx": items=[np.round(nr.normal(size=(1,nc))*8)/8 for _ in range(L)]
    else: items=[np.round(nr.normal(size=(rnd.randint(6,12),nc))*8)/8 for _ in range(L)]
    # containers per step
    if kind=="sy": conts=[None]*L
    else: conts=[rnd.choice(list(containers(kind,it,names))) for it in items]
    # fault
    pos=rnd.randint(0,L)
    if kind=="sy": fkind=rnd.choice(["y_multi"]); fault=([1,0],1)
    else:
        fkind=rnd.choice(["rows","cols+","cols-","rename","multi_uni"])
        base=items[0]
        if fkind=="rows": arr=(np.vstack([base[:1],base[:1]]) if kind=="sx" else base[:1]); fc=rnd.choice(["nd2","df","list"])
        elif fkind=="cols+": arr=np.hstack([base,base[:,:1]]); fc=rnd.choice(["nd2","df","list"])
        elif fkind=="cols-":
            if nc<2: continue
            arr=base[:,:-1]; fc=rnd.choice(["nd2","df","list"])
        elif fkind=="rename": arr=base; fc="dfren"
        elif fkind=="multi_uni":
            if nc!=1: continue
            arr=np.hstack([base,base]); fc=rnd.choice(["nd2","df","list"])
        fn=list("abcdefg")[:arr.shape[1]]
        fault={"nd2":np.array(arr),"df":pd.DataFrame(arr,columns=fn),"list":arr.tolist(),"dfren":pd.DataFrame(arr,columns=list("wxyz")[:arr.shape[1]])}[fc]
        fkind=fkind+"/"+fc
    def mk(i): 
        return items[i] if kind=="sy" else containers(kind,items[i],names)[conts[i]]()
    try:
        clean=ctor(); tr_clean=[]
        for i in range(L): call(clean,kind,mk(i),i==0,100+i); tr_clean.append(obs(clean))
    except Exception as e:
        problems[(name,"clean-run-exception",type(e).__name__,tuple(conts) if kind!="sy" else None)]+=1; examples.setdefault((name,"clean",type(e).__name__),(conts,str(e)[:80])); continue
    f=ctor(); tr=[]; status=None
    saw_df_before = any(c=="df" for c in conts[:pos]) if kind!="sy" else False
    try:
        for i in range(L+1):
            if i==pos:
                try:
                    call(f,kind,fault,pos==0,999); status="accepted"
                except ValueError: status="ValueError"
                except Exception as e: status="other:"+type(e).__name__
                if fkind=="rename/dfren" and not saw_df_before: status="n/a"   # names not yet established -> legal
                if status!="ValueError": break
            if i<L:
                call(f,kind,mk(i),(i==0),100+i); tr.append(obs(f))
    except Exception as e:
        status="later-exception:"+type(e).__name__+":"+str(e)[:50]
    if status=="n/a": continue
    if status!="ValueError": problems[(name,fkind,status,"pos0" if pos==0 else ("dfbefore" if saw_df_before else "nodf"))]+=1
    elif tr!=tr_clean: problems[(name,fkind,"trace-differs","pos0" if pos==0 else "")]+=1
    # container metamorphism
    if kind!="sy":
        conts2=[rnd.choice(list(containers(kind,it,names))) for it in items]
        try:
            g=ctor(); tr2=[]
            for i in range(L): call(g,kind,containers(kind,items[i],names)[conts2[i]](),i==0,100+i); tr2.append(obs(g))
            if tr2!=tr_clean: problems[(name,"container-metamorphism","trace-differs",None)]+=1; examples.setdefault((name,"cm"),(conts,conts2,tr_clean,tr2))
        except Exception as e:
            problems[(name,"container-run-exception",type(e).__name__,None)]+=1; examples.setdefault((name,"cre",type(e).__name__),(conts2,str(e)[:100]))
for k,v in sorted(problems.items(),key=str): print(v,k)
print("---examples")
for k,v in examples.items(): print(k,v)
