import warnings, numpy as np, random, math
warnings.simplefilter("ignore")
from sklearn.decomposition import PCA
from sklearn.preprocessing import StandardScaler
from sklearn.neighbors import KernelDensity
from scipy.spatial.distance import jensenshannon
from menelaus.data_drift import PCACD
class PH:
    def __init__(s,delta,thr): s.delta,s.thr=delta,thr; s.reset()
    def reset(s): s.n=0; s.mean=0.0; s.sum=0.0; s.min=0.0; s.state=None
    def update(s,x):
        if s.state=="drift": s.reset()
        s.n+=1; s.mean+= (x-s.mean)/s.n; s.sum+= x-s.mean-s.delta
        s.min=min(s.min,s.sum)
        if s.sum-s.min> s.thr*s.mean and s.n>0: s.state="drift"
class Model:
    def __init__(s,W,ev,delta,metric,sp,scale):
        s.W,s.ev,s.metric,s.scale=W,ev,metric,scale
        s.step=min(100,round(sp*W)); s.bins=int(math.floor(math.sqrt(W)))
        s.ph=PH(delta,round(0.01*W)); s.total=0; s.n=0; s.state=None
        s.ref=[]; s.test=[]; s.building=True; s.scores=[0]; s.num_pcs=None
    def kde(s,x):
        bw=1.06*np.std(x,ddof=1)*len(x)**(-1/5)
        k=KernelDensity(bandwidth=bw,kernel="epanechnikov").fit(x.reshape(-1,1)); return np.exp(k.score_samples(x.reshape(-1,1)))
    def hist(s,x,lo,hi):
        h=np.histogram(x,bins=s.bins,range=(lo,hi),density=True)[0]; return h/h.sum()
    def update(s,x):
        x=np.asarray(x,float).reshape(1,-1); s.total+=1; s.n+=1
        if s.building:
            if s.state is not None:
                s.ref=list(s.test_raw); s.test=[]; s.n=0; s.state=None; s.ph.reset()
            elif len(s.ref)<s.W: s.ref.append(x[0])
            elif len(s.test)<s.W: s.test.append(x[0])
            if len(s.test)==s.W:
                s.building=False
                R=np.array(s.ref); T=np.array(s.test); s.test_raw=[r for r in T]
                if s.scale:
                    s.sc=StandardScaler().fit(R); R=s.sc.transform(R); T=s.sc.transform(T)
                s.pca=PCA(s.ev).fit(R); s.num_pcs=len(s.pca.components_)
                s.rp=s.pca.transform(R); s.tp=s.pca.transform(T)
                s.lo=[min(s.rp[:,i].min(),s.tp[:,i].min()) for i in range(s.num_pcs)]
                s.hi=[max(s.rp[:,i].max(),s.tp[:,i].max()) for i in range(s.num_pcs)]
                s.dref=[s.hist(s.rp[:,i],s.lo[i],s.hi[i]) if s.metric=="intersection" else s.kde(s.rp[:,i]) for i in range(s.num_pcs)]
        else:
            s.test_raw=s.test_raw[1:]+[x[0]]
            o=s.sc.transform(x) if s.scale else x
            p=s.pca.transform(o)[0]
            if s.metric=="intersection": p=np.array([min(max(p[i],s.lo[i]),s.hi[i]) for i in range(s.num_pcs)])
            s.tp=np.vstack([s.tp[1:],p])
            if (s.total-1)%s.step==0 and s.total-1!=0:
                sc=[]
                for i in range(s.num_pcs):
                    if s.metric=="intersection": sc.append(1-np.sum(np.minimum(s.dref[i],s.hist(s.tp[:,i],s.lo[i],s.hi[i]))))
                    else: sc.append(jensenshannon(s.dref[i],s.kde(s.tp[:,i])))
                m=max(sc); s.scores.append(m); s.ph.update(m)
                if s.ph.state is not None: s.building=True; s.state="drift"
def run(seed):
    rnd=random.Random(seed); nr=np.random.RandomState(seed)
    W=rnd.randint(10,40); sp=rnd.choice([0.05,0.1,0.2,0.5])
    if round(sp*W)<1: sp=0.5
    metric=rnd.choice(["kl","intersection"]); SC=rnd.random()<0.6; ev=rnd.choice([0.3,0.9,0.99,0.999]); d=rnd.randint(2,4); delta=rnd.choice([0.0,0.01,0.1])
    det=PCACD(window_size=W,ev_threshold=ev,delta=delta,divergence_metric=metric,sample_period=sp,online_scaling=SC)
    mod=Model(W,ev,delta,metric,sp,SC)
    loc=np.zeros(d); A=np.eye(d); nd=0
    for i in range(W*rnd.randint(3,7)):
        if rnd.random()<0.02: loc=loc+nr.normal(0,3,size=d)
        if rnd.random()<0.01: A=nr.normal(size=(d,d))
        x=loc+A@nr.normal(size=d)
        det.update(x.reshape(1,-1)); mod.update(x)
        pass
        ok=det.drift_state==mod.state and det.samples_since_reset==mod.n and det.num_pcs==mod.num_pcs and len(det._change_score)==len(mod.scores) and abs(det._change_score[-1]-mod.scores[-1])<1e-9
        if not ok: return ("MISMATCH",seed,i,W,metric,det.drift_state,mod.state,det.samples_since_reset,mod.n,det.num_pcs,mod.num_pcs,det._change_score[-3:],mod.scores[-3:])
        nd+=mod.state=="drift"
    return ("ok",min(nd,3),metric,min(mod.num_pcs or 0,2))
from collections import Counter
c=Counter()
for s in range(120):
    r=run(s); c[r if r[0]!="MISMATCH" else ("MISMATCH",)]+=1
    if r[0]=="MISMATCH": print(r)
for k,v in sorted(c.items(),key=str): print(k,v)
