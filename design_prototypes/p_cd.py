import warnings, numpy as np, random, math, itertools
from fractions import Fraction as F
warnings.simplefilter("ignore")
from menelaus.concept_drift import DDM, EDDM, STEPD
from menelaus.change_detection import PageHinkley, CUSUM
TOL=1e-9
class MDDM:
    def __init__(s,nt,ws,ds): s.nt,s.ws,s.ds=nt,ws,ds; s.total=0; s.reset()
    def reset(s): s.n=0;s.p=0.0;s.s=0.0;s.pm=math.inf;s.sm=math.inf;s.recs=[None,None];s.state=None
    def step(s,err):
        if s.state=="drift": s.reset()
        s.total+=1;s.n+=1;pp=s.p
        s.p=s.p+(err-s.p)/s.n; s.s=math.sqrt((s.s+(err-s.p)*(err-pp))/s.n)
        amb=False
        if s.n<s.nt: return amb
        if s.p+s.s<=s.pm+s.sm: s.pm,s.sm=s.p,s.s
        l=s.p+s.s; amb = abs(l-(s.pm+s.ds*s.s))<TOL or abs(l-(s.pm+s.ws*s.s))<TOL
        s.state="drift" if l>=s.pm+s.ds*s.s else "warning" if l>=s.pm+s.ws*s.s else None
        s._recs(); return amb
    def _recs(s):
        if s.state=="warning" and s.recs[0] is None: s.recs[0]=s.total-1
        if s.state=="drift":
            s.recs[1]=s.total-1
            if s.recs[0] is None: s.recs[0]=s.total-1
class MEDDM(MDDM):
    def __init__(s,nt,wt,dt): s.nt,s.wt,s.dt=nt,wt,dt; s.total=0; s.reset()
    def reset(s): s.n=0;s.ne=0;s.last=0;s.m=0.0;s.sd=0.0;s.mx=0.0;s.recs=[None,None];s.state=None
    def step(s,err):
        if s.state=="drift": s.reset()
        s.total+=1;s.n+=1
        if not err: return False
        s.ne+=1; d=(s.n-1)-s.last; s.last=s.n-1
        pm=s.m; s.m=s.m+(d-s.m)/s.ne; s.sd=math.sqrt((s.sd+(d-s.m)*(d-pm))/s.ne)
        if s.ne<s.nt: return False
        cur=s.m+2*s.sd; s.mx=max(s.mx,cur)
        if s.mx==0:
            s.state=None; return False
        r=cur/s.mx
        amb=abs(r-s.dt)<TOL or abs(r-s.wt)<TOL
        s.state="drift" if r<=s.dt else "warning" if r<=s.wt else None
        s._recs(); return amb
class MSTEPD:
    def __init__(s,w,aw,ad): s.w,s.aw,s.ad=w,aw,ad; s.total=0; s.reset()
    def reset(s): s.hist=[]; s.recs=[None,None]; s.state=None
    def step(s,err):
        if s.state=="drift": s.reset()
        s.total+=1; s.hist.append(1-err); n=len(s.hist); amb=False
        if n>=2*s.w:
            rec=s.hist[-s.w:]; past=s.hist[:-s.w]; pr=sum(rec)/s.w; pp=sum(past)/len(past); po=sum(s.hist)/n
            h=1/len(past)+1/s.w
            den=math.sqrt(po*(1-po)*h)
            if den==0: p=1.0 if (abs(pp-pr)-0.5*h)<0 else 0.0
            else:
                z=(abs(pp-pr)-0.5*h)/den; p=0.5*math.erfc(z/math.sqrt(2))
            dec=pp>pr
            amb=abs(p-s.ad)<TOL or abs(p-s.aw)<TOL
            s.state="drift" if dec and p<s.ad else "warning" if dec and p<s.aw else None
            if s.state is None: s.recs=[None,None]
            else:
                if s.recs[0] is None: s.recs=[s.total-1,s.total-1]
                else: s.recs[1]+=1
        return amb
def cmp(det,mod,seq):
    nd=0
    for i,e in enumerate(seq):
        det.update(1,1-e); amb=mod.step(e)
        if amb: return "ambig"
        if det.drift_state!=mod.state or list(det.retraining_recs)!=mod.recs: return ("MISMATCH",i,det.drift_state,mod.state,list(det.retraining_recs),mod.recs,seq[:i+1])
        nd+=mod.state=="drift"
    return ("ok",min(nd,2))
from collections import Counter
c=Counter()
# exhaustive n=10 few configs
for n in [10]:
    for seq in itertools.product([0,1],repeat=n):
        for nt in (1,2,3):
            r=cmp(DDM(nt,1.5,2.5),MDDM(nt,1.5,2.5),seq); c[("DDM",r if isinstance(r,str) else r[0])]+=1
            if r[0]=="MISMATCH" and c[("DDM","MISMATCH")]<3: print("DDM",r)
            r=cmp(EDDM(nt,0.95,0.8),MEDDM(nt,0.95,0.8),seq); c[("EDDM",r if isinstance(r,str) else r[0])]+=1
            if r[0]=="MISMATCH" and c[("EDDM","MISMATCH")]<3: print("EDDM",r)
        for w in (1,2,3):
            r=cmp(STEPD(w,0.3,0.1),MSTEPD(w,0.3,0.1),seq); c[("STEPD",r if isinstance(r,str) else r[0])]+=1
            if r[0]=="MISMATCH" and c[("STEPD","MISMATCH")]<3: print("STEPD",r)
# random long
rnd=random.Random(1)
for k in range(300):
    seq=[]; 
    for _ in range(rnd.randint(2,6)):
        p=rnd.random()*0.6; seq+=[int(rnd.random()<p) for _ in range(rnd.randint(10,120))]
    for name,(det,mod) in {"DDM":(DDM(rnd.randint(1,30),2,3),None)}.items(): pass
    nt=rnd.randint(1,30); r=cmp(DDM(nt,2,3),MDDM(nt,2,3),seq); c[("DDMr",r if isinstance(r,str) else r)]+=1
    r=cmp(EDDM(nt,0.95,0.9),MEDDM(nt,0.95,0.9),seq); c[("EDDMr",r if isinstance(r,str) else r)]+=1
    w=rnd.randint(1,30); r=cmp(STEPD(w,0.05,0.003),MSTEPD(w,0.05,0.003),seq); c[("STEPDr",r if isinstance(r,str) else r)]+=1
for k,v in sorted(c.items(),key=str): print(k,v)
