#!/venv/bin/python
"""Entry point:  /venv/bin/python -B run_check.py Cxx --tier quick|thorough [--replay file]

The code under test is imported from VERIF_REPO (default /repo) *as it is on
disk now*: the path is put first on sys.path, byte-code caching is disabled and
redirected to an empty per-process directory, so nothing compiled from an
earlier tree can be picked up.
"""
import os
import sys
import tempfile

sys.dont_write_bytecode = True
os.environ.setdefault("PYTHONHASHSEED", "0")
for _v in ("OMP_NUM_THREADS", "OPENBLAS_NUM_THREADS", "MKL_NUM_THREADS", "NUMEXPR_NUM_THREADS"):
    os.environ.setdefault(_v, "1")
os.environ.setdefault("MITRE_MENELAUS_VERIF", "1")
if "VERIF_PYCACHE" not in os.environ:
    os.environ["VERIF_PYCACHE"] = tempfile.mkdtemp(prefix="verif-pyc-")
sys.pycache_prefix = os.environ["VERIF_PYCACHE"]

HERE = os.path.dirname(os.path.abspath(__file__))
REPO = os.environ.get("VERIF_REPO", "/repo")
sys.path[:0] = [REPO, HERE]

import warnings  # noqa: E402

warnings.simplefilter("ignore")


def _main():
    from vlib import runner

    try:
        import menelaus

        got = os.path.realpath(os.path.dirname(os.path.dirname(menelaus.__file__)))
        if got != os.path.realpath(REPO):
            print(f"HARNESS-ERROR menelaus imported from {got}, expected {REPO}")
            return 2
    except Exception as e:  # pragma: no cover
        print(f"HARNESS-ERROR cannot import menelaus from {REPO}: {e!r}")
        return 2
    try:
        return runner.main()
    except SystemExit:
        raise
    except BaseException:  # anything escaping the runner is a harness problem, never a verdict
        import traceback

        traceback.print_exc()
        print("HARNESS-ERROR uncaught exception in the runner (see traceback)")
        return 2
    finally:
        import shutil

        if os.environ["VERIF_PYCACHE"].startswith(tempfile.gettempdir()):
            shutil.rmtree(os.environ["VERIF_PYCACHE"], ignore_errors=True)


if __name__ == "__main__":
    sys.exit(_main())
