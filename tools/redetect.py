#!/usr/bin/env python3
"""redetect.py <seed> [jobs]  - re-run, for every seeded breaking change, the check(s) that reported it, with another
VERIF_SEED; prints which ones are (not) reported again.  Scratch copies under /tmp/rd, removed afterwards."""
import glob, json, os, shutil, subprocess, sys
from concurrent.futures import ThreadPoolExecutor
ROOT = os.path.dirname(os.path.dirname(os.path.abspath(__file__)))
seed = sys.argv[1]
jobs = int(sys.argv[2]) if len(sys.argv) > 2 else 3

def one(mp):
    m = json.load(open(mp))
    sid = m["id"]
    dets = m.get("detected_by") or []
    if not dets or not m.get("valid_seed"):
        return sid, None, []
    d = f"/tmp/rd/{sid}"
    shutil.rmtree(d, ignore_errors=True)
    os.makedirs(d)
    shutil.copytree("/repo/menelaus", d + "/menelaus")
    subprocess.run(["patch", "-p1", "-s", "-i", os.path.join(os.path.dirname(mp), "patch.diff")], cwd=d, check=True)
    out = []
    for c in dets[:2]:
        env = dict(os.environ, VERIF_REPO=d, VERIF_SEED=seed, VERIF_JOBS="8")
        p = subprocess.run(["/venv/bin/python", "-B", "run_check.py", c, "--tier", "quick", "--no-evidence"], cwd=ROOT, env=env, capture_output=True, text=True)
        out.append((c, p.returncode))
        if p.returncode == 1:
            break
    shutil.rmtree(d, ignore_errors=True)
    return sid, any(rc == 1 for _, rc in out), out

mps = sorted(glob.glob(os.path.join(ROOT, "seeded", "C*", "meta.json")))
with ThreadPoolExecutor(jobs) as ex:
    for sid, ok, out in ex.map(one, mps):
        print(sid, "REDETECTED" if ok else ("skipped" if ok is None else "NOT-REDETECTED"), out, flush=True)
shutil.rmtree(os.path.join(ROOT, "replays"), ignore_errors=True)
