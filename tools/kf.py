#!/usr/bin/env python3
"""kf.py fixed <prop> <commit> <regression> <what>   |  kf.py open <id> <prop> <regression> <sigjson> <what>"""
import json, sys, os
ROOT=os.path.dirname(os.path.dirname(os.path.abspath(__file__)))
p=os.path.join(ROOT,'known_findings.json'); d=json.load(open(p))
if sys.argv[1]=='fixed':
    _,_,prop,commit,reg,what=sys.argv
    d['fixed'].append({"property":prop,"commit":commit,"what":what,"regression":reg,"line":f"fixed: property={prop} {commit} {what}"})
else:
    _,_,fid,prop,reg,sig,what=sys.argv
    d['open'].append({"id":fid,"property":prop,"signature":json.loads(sig),"what":what,"regression":reg})
json.dump(d,open(p,'w'),indent=1)
