#!/usr/bin/env python3
"""harvest.py [jobs] [id-substring]  - builds the replay corpus: for every seeded breaking change (seeded/C*/meta.json with detected_by),
apply it to a scratch copy, run the detecting quick check(s), and keep the shrunk failing case of each reported violation as
regressions/<Cxx>/S-<seeded id>[-n].json - provided the same case passes on the unchanged /repo (checked by replay) and the
file is small.  The corpus is replayed at the start of every run (seconds), so inputs that once exposed a realistic defect are
tried again on every change, whatever VERIF_SEED is.  Nothing is applied to /repo."""
import glob, json, os, re, shutil, subprocess, sys
from concurrent.futures import ThreadPoolExecutor

ROOT = os.path.dirname(os.path.dirname(os.path.abspath(__file__)))
jobs = int(sys.argv[1]) if len(sys.argv) > 1 else 3
MAX_BYTES = 150_000


def one(mp):
    m = json.load(open(mp))
    sid = m["id"]
    dets = m.get("detected_by") or []
    if not dets or not m.get("valid_seed"):
        return sid, "skipped", []
    d = f"/tmp/hv/{sid}"
    shutil.rmtree(d, ignore_errors=True)
    os.makedirs(d + "/replays")
    shutil.copytree("/repo/menelaus", d + "/menelaus")
    subprocess.run(["patch", "-p1", "-s", "-i", os.path.join(os.path.dirname(mp), "patch.diff")], cwd=d, check=True)
    kept = []
    try:
        for c in dets[:3]:
            env = dict(os.environ, VERIF_REPO=d, VERIF_SEED="1", VERIF_JOBS="8", VERIF_REPLAY_DIR=d + "/replays")
            p = subprocess.run(["/venv/bin/python", "-B", "run_check.py", c, "--tier", "quick", "--no-evidence"], cwd=ROOT, env=env, capture_output=True, text=True)
            paths = re.findall(r"^VIOLATION property=\S+ replay=(\S+)", p.stdout, re.M)
            for k, rp in enumerate(paths[:2]):
                if not os.path.exists(rp) or rp.startswith(os.path.join(ROOT, "regressions")):
                    continue
                if os.path.getsize(rp) > MAX_BYTES:
                    kept.append((c, "too-large"))
                    continue
                # must be quiet on the unchanged tree
                q = subprocess.run(["/venv/bin/python", "-B", "run_check.py", c, "--replay", rp], cwd=ROOT, env=dict(os.environ, VERIF_REPO="/repo"), capture_output=True, text=True)
                if q.returncode != 0:
                    kept.append((c, f"FAILS-ON-UNCHANGED-TREE rc={q.returncode} {rp}"))
                    shutil.copy(rp, f"/tmp/hv/FAIL-{sid}-{c}-{k}.json")
                    continue
                doc = json.load(open(rp))
                doc.pop("violation", None)
                doc["note"] = f"corpus case: shrunk input with which {c} reported the seeded change {sid}; passes on the unchanged tree"
                dst = os.path.join(ROOT, "regressions", c, f"S-{sid}{'' if k == 0 else '-' + str(k)}.json")
                os.makedirs(os.path.dirname(dst), exist_ok=True)
                json.dump(doc, open(dst, "w"), indent=None, separators=(",", ":"))
                kept.append((c, os.path.basename(dst)))
    finally:
        shutil.rmtree(d, ignore_errors=True)
    return sid, "ok", kept


mps = sorted(glob.glob(os.path.join(ROOT, "seeded", "C*", "meta.json")))
if len(sys.argv) > 2:  # only the seeded changes whose id contains the given substring (e.g. -r5)
    mps = [m for m in mps if sys.argv[2] in os.path.basename(os.path.dirname(m))]
os.makedirs("/tmp/hv", exist_ok=True)
with ThreadPoolExecutor(jobs) as ex:
    for sid, st, kept in ex.map(one, mps):
        print(sid, st, kept, flush=True)
