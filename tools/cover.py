#!/venv/bin/python
"""cover.py run <Cxx> <out.json> [scale]   - run one quick check in-process (one worker) recording which lines of
                                           <VERIF_REPO>/menelaus it executes (sys.monitoring, Python 3.12)
cover.py report <out1.json> ...          - union of the recorded lines against all executable lines of the package;
                                           prints the lines no check reaches, per file, and a summary.

A self-assessment aid, not a check: code no generated case reaches cannot be judged by any oracle."""
import json, os, sys

HERE = os.path.dirname(os.path.dirname(os.path.abspath(__file__)))
REPO = os.environ.get("VERIF_REPO", "/repo")
PKG = os.path.join(os.path.realpath(REPO), "menelaus") + os.sep


def run(prop, out, scale):
    sys.dont_write_bytecode = True
    sys.path[:0] = [REPO, HERE]
    mon = sys.monitoring
    tool = mon.COVERAGE_ID
    mon.use_tool_id(tool, "verif-cover")
    seen = {}

    def on_line(code, line):
        fn = code.co_filename
        if fn.startswith(PKG):
            seen.setdefault(fn[len(PKG):], set()).add(line)
            return None
        return mon.DISABLE

    mon.register_callback(tool, mon.events.LINE, on_line)
    mon.set_events(tool, mon.events.LINE)
    from vlib import runner

    try:
        rc = runner.main([prop, "--tier", "quick", "--jobs", "1", "--no-evidence", "--scale", str(scale)])
    except SystemExit as e:
        rc = e.code
    mon.set_events(tool, 0)
    json.dump({"prop": prop, "rc": rc, "lines": {k: sorted(v) for k, v in seen.items()}}, open(out, "w"))
    print(prop, "rc", rc, "files", len(seen), "lines", sum(map(len, seen.values())))


def executable_lines(path):
    src = open(path).read()
    code = compile(src, path, "exec")
    lines = set()
    stack = [code]
    while stack:
        c = stack.pop()
        for _, _, ln in c.co_lines():
            if ln is not None:
                lines.add(ln)
        stack.extend(k for k in c.co_consts if hasattr(k, "co_lines"))
    # drop docstring-only / def lines noise: keep as is, report is indicative
    return lines, src.splitlines()


def report(files):
    union = {}
    for f in files:
        d = json.load(open(f))
        for k, v in d["lines"].items():
            union.setdefault(k, set()).update(v)
    tot = hit = 0
    for root, _, names in sorted(os.walk(PKG)):
        for n in sorted(names):
            if not n.endswith(".py"):
                continue
            p = os.path.join(root, n)
            rel = p[len(PKG):]
            if rel.startswith("datasets"):
                continue
            ex, src = executable_lines(p)
            got = union.get(rel, set())
            miss = sorted(ex - got)
            # module-level lines executed at import before monitoring started are not interesting: skip def/class/import/decorator lines
            miss = [m for m in miss if not src[m - 1].lstrip().startswith(("def ", "class ", "import ", "from ", "@", '"""', "'''")) and src[m - 1].strip()]
            tot += len(ex)
            hit += len(ex) - len(miss)
            if miss:
                print(f"--- {rel}: {len(miss)} of {len(ex)} executable lines not reached")
                for m in miss:
                    print(f"   {m:4d} {src[m - 1].rstrip()[:110]}")
    print(f"TOTAL {hit}/{tot} executable lines reached")


if __name__ == "__main__":
    if sys.argv[1] == "run":
        run(sys.argv[2], sys.argv[3], float(sys.argv[4]) if len(sys.argv) > 4 else 0.15)
    else:
        report(sys.argv[2:])
