#!/usr/bin/env python3
"""Regenerates /verif/MANIFEST.json from the table below (run after adding a check)."""
import json
import os

ROOT = os.path.dirname(os.path.dirname(os.path.abspath(__file__)))
PY = "/venv/bin/python -B run_check.py"

# id -> (built, category, technique, level text, level note, design ref)
CHECKS = {
    "C01": (
        "exploration",
        "Hypothesis-generated multi-epoch histories + table-driven invariant monitor over the public trace",
        "Generated search over parameters x multi-drift histories for all 15 detectors; an invariant monitor written from "
        "the property's table (state values, total / since-reset counters, warm-up minima, retraining_recs) runs after every update. "
        "Sampling, not proof: evidence reports per-detector counts of histories with >=2 drifts.",
        "Trusts numpy/pandas/scipy/sklearn; detectors observed through public attributes only; numpy global RNG seeded per call.",
        "4/C01",
    ),
    "C02": (
        "exploration",
        "Hypothesis histories + fresh-twin differential oracle (epoch by epoch, same numpy seed schedule)",
        "After every reported drift (or explicit set_reference) a newly constructed detector with the documented carry-over is fed "
        "the remaining data; states, shifted recommendations and public statistics must be identical.",
        "Same code on the same numbers, so equality is exact; stochastic detectors share a per-call numpy seed.",
        "4/C02",
    ),
    "C03": (
        "exploration",
        "Hypothesis streams on a dyadic grid vs. an exact-rational reference model of the exponential histogram (forking on float ties); ADWINAccuracy differential",
        "Reference model keeps raw values per bucket with Fraction arithmetic; mean/variance/width/cut decisions/retraining_recs compared after every update.",
        "Tolerance 1e-9 relative on statistics; decisions inside the tolerance band admit both outcomes.",
        "4/C03",
    ),
    "C04": (
        "exploration",
        "Hypothesis multi-alarm streams vs. reference models of CUSUM (float, own order) and Page-Hinkley (exact rationals), forking on ties",
        "Every decision and every to_dataframe() column is recomputed independently from the property statement.",
        "Constant burn-in windows (sigma=0) are outside the domain and counted.",
        "4/C04",
    ),
    "C05": (
        "exploration",
        "exhaustive enumeration of all binary outcome sequences up to n (prefix tree) + Hypothesis long sequences vs. executable specifications of DDM/EDDM/STEPD",
        "All 2^n sequences (n=12 quick, 16 thorough) for a grid of small settings, plus long random piecewise-stationary sequences; state and retraining_recs after every sample.",
        "Specifications follow class docstrings + suite-pinned behaviour (DDM uses current s); ties fork.",
        "4/C05",
    ),
    "C06": (
        "exploration",
        "Hypothesis (y_true,y_pred) histories vs. a reference LFR model replicating the Monte-Carlo bounds under the same numpy seeds; exact-enumeration validation of the bound distribution",
        "Confusion-matrix rates as rationals, statistic recurrence, bounds cache keyed like the implementation, state / retraining_recs / all_drift_states after every sample.",
        "parallelize=False only (thread schedule not owned).",
        "4/C06",
    ),
    "C07": (
        "exploration",
        "Hypothesis batch histories vs. a numpy reference model of distances, epsilon, adaptive threshold and reference handling; metamorphic distance axioms",
        "Every public record (distances, epsilon_values, thresholds, beta, reference_n, feature_info) recomputed; bootstrap epsilon taken from the public threshold and validated separately.",
        "numpy.histogram and scipy.stats.t are trusted libraries.",
        "4/C07",
    ),
    "C08": (
        "exploration",
        "Hypothesis point sets + generated fill/reset/kl/plot operation sequences vs. validity predicates and an independent membership model",
        "Tree validity, conservation, cell membership, accumulation, corrected distributions, KL and Kulldorff statistic checked after every operation.",
        "Dyadic-grid inputs so midpoints are exact.",
        "4/C08",
    ),
    "C09": (
        "exploration",
        "Hypothesis streams/batch histories vs. a reference kdq-tree detector model with its own tree and bootstrap bound under the same seeds (forking on ties)",
        "Drift decisions after every update, next reference, persistence semantics, public counts cross-checked.",
        "Bound reproduced with numpy under identical seeding.",
        "4/C09",
    ),
    "C10": (
        "exploration",
        "Hypothesis point-set pairs vs. membership/adjacency validity predicates and metamorphic relations; NNDVI histories vs. reference model with same-seed permutation threshold",
        "v1/v2/D/adjacency/distance (symmetry, range, identity) for unequal sizes with duplicates; NNDVI decisions and reference replacement.",
        "sklearn NearestNeighbors trusted for neighbour search; ties in neighbour order admitted.",
        "4/C10",
    ),
    "C11": (
        "exploration",
        "Hypothesis multivariate streams vs. a reference PCA-CD model built on the same third-party estimators, with own windows, supports, divergences and Page-Hinkley (forking on knife-edge)",
        "drift_state, samples_since_reset, num_pcs after every update and the score history within 1e-9.",
        "StandardScaler/PCA/KernelDensity/jensenshannon are trusted libraries.",
        "4/C11",
    ),
    "C12": (
        "exploration",
        "Hypothesis ensembles (member mixes, elections, selectors) vs. stand-alone twin detectors + reference election",
        "After every ensemble call each member equals its twin, drift_states/retraining_recs report members' values, verdict equals C13 reference election.",
        "Stochastic members are seeded per member and step through a thin subclass.",
        "4/C12",
    ),
    "C13": (
        "exploration",
        "exhaustive enumeration of vote vectors x parameters; explicit-state BFS of ConfirmedElection in lockstep with a reference rule; Hypothesis vote histories",
        "The stateless rules are settled completely for n<=6 (7 thorough); ConfirmedElection for every reachable counter state x vote vector for n<=4 (5 thorough).",
        "Elections only read .drift_state (stand-in member objects).",
        "4/C13",
    ),
    "C14": (
        "fault_enumeration",
        "Hypothesis histories with one injected malformed call at every position x container assignments; rejection + no-harm differential twin + container metamorphism",
        "One fault per history (wrong rows / columns / names / multi-column to univariate / multi y) at a drawn position incl. 0; faulted call must raise ValueError, later outputs equal the fault-free twin; same values in other containers give identical outputs.",
        "G10 (BatchDetector DataFrame width gap) is a listed known finding, excluded by construction.",
        "4/C14",
    ),
    "C15": (
        "exploration",
        "Hypothesis histories with caller-side overwrites after drawn calls; bit-for-bit argument snapshots + aliasing differential; injector memory-sharing checks",
        "Arguments compared before/after each call; trace with overwrites equals trace with private copies; injectors return fresh objects.",
        "Overwrites are in-place cell writes reaching pandas blocks.",
        "4/C15",
    ),
    "C16": (
        "exploration",
        "Hypothesis outcome sequences under injective re-labelings / containers / junk unused arguments; metamorphic equality with the canonical 0/1 run",
        "Full output trace under every variant equals the canonical run exactly.",
        "LFR restricted to int/bool labels (it indexes with them).",
        "4/C16",
    ),
    "C17": (
        "exploration",
        "Hypothesis histories x ordered threshold pairs per detector family; metamorphic first-alarm ordering under identical seeds",
        "Stricter detection threshold never moves the first drift earlier; looser warning threshold leaves drifts unchanged and keeps warnings.",
        "Exact relation: both runs see identical statistics until the looser one alarms.",
        "4/C17",
    ),
    "C18": (
        "exploration",
        "Hypothesis batch histories x drawn row permutations; metamorphic equality of divergences and decision sequences",
        "HDDDM/CDBD distances, kdq leaf divergence, NN-DVI distance equal (1e-12) under permutation; decisions equal where the threshold is position-free.",
        "Same seeds in both runs.",
        "4/C18",
    ),
    "C19": (
        "model_checking",
        "exhaustive interleavings of the MD3 protocol alphabet up to a bound + Hypothesis protocol walks vs. a reference protocol model with a deterministic stub classifier",
        "All call sequences over a 7-letter alphabet up to length 4 (6 thorough) from several reference batches, plus long generated walks; refusals, margin density recurrence, confirmation and reference replacement compared after every call.",
        "Stub classifier records folds; KFold partition validity is checked, not assumed.",
        "4/C19",
    ),
    "C20": (
        "exploration",
        "Hypothesis data sets x all windows x columns/classes; frame-condition validity predicates, involutions, exact binomial tail test for resampling frequencies",
        "Every injector on ndarray and DataFrame data incl. empty and full windows.",
        "Float feature columns (integer arrays would truncate shifts).",
        "4/C20",
    ),
}

BUILT = []  # filled below from existing modules


def main():
    props = [json.loads(l) for l in open(os.path.join(ROOT, "properties.jsonl"))]
    built = [p["id"] for p in props if os.path.exists(os.path.join(ROOT, "vlib", "props", p["id"].lower() + ".py"))]
    checks = []
    na = []
    for p in props:
        pid = p["id"]
        cat, tech, text, note, ref = CHECKS[pid]
        if pid in built:
            checks.append(
                {
                    "property_id": pid,
                    "quick_cmd": f"{PY} {pid} --tier quick",
                    "thorough_cmd": f"{PY} {pid} --tier thorough",
                    "evidence_file": f"/verif/evidence/{pid}.json",
                    "replay_cmd_template": f"{PY} {pid} --replay {{path}}",
                    "engine": "pbt",
                    "level_claimed": {"category": cat, "text": text, "design_ref": "DESIGN.md section " + ref},
                    "level_note": note,
                    "technique": tech,
                }
            )
        else:
            na.append({"property_id": pid, "reason": "check under construction in this session (designed in DESIGN.md section " + ref + "); not claimed until its module exists"})
    man = {
        "version": 1,
        "setup_cmd": "/venv/bin/python -c 'import hypothesis, numpy, pandas, scipy, sklearn' || /venv/bin/pip install --no-index --find-links /opt/veriftools/wheels hypothesis",
        "hooks": {
            "guard": "MITRE_MENELAUS_VERIF",
            "enable": "no source hooks are needed: every check observes the public API of the working tree in /repo (env MITRE_MENELAUS_VERIF=1 is exported by run_check.py but nothing in /repo reads it)",
            "baseline_off_cmd": "cd /repo && env -u MITRE_MENELAUS_VERIF /venv/bin/python -m pytest -ra -q -p no:cacheprovider --timeout=900 --continue-on-collection-errors",
            "source_commits": [],
            "add_only": True,
        },
        "engines": [
            {
                "name": "pbt",
                "path": "/verif/run_check.py",
                "serves_properties": built,
                "kind_free_text": "Hypothesis 6.168 strategies / explicit enumerators driving JSON-replayable check functions (vlib/props) against reference models (vlib/models); 16-process sharding",
            }
        ],
        "checks": checks,
        "notes": "All checks: exit 0 ok, exit 1 + VIOLATION line, exit 2 harness error. VERIF_SEED selects the Hypothesis seeds; VERIF_REPO (default /repo) selects the tree under test. known_findings.json lists recorded findings and fixed defects.",
    }
    man["not_applicable"] = na  # empty: every listed property is claimed
    with open(os.path.join(ROOT, "MANIFEST.json"), "w") as f:
        json.dump(man, f, indent=1)
    print("built:", built)


if __name__ == "__main__":
    main()
