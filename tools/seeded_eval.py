#!/usr/bin/env python3
"""Evaluate one seeded change:  seeded_eval.py <src_dir> <name> <property> [--checks C01,C02] [--tier quick]

<src_dir> holds <name>.diff, <name>_demo.py, <name>_notes.md (as written by a sub-agent).
Steps (all in a scratch git worktree of /repo under /tmp/sv, removed afterwards):
  1. demo on the clean tree must exit 0;   2. patch must apply;   3. demo on the patched tree must exit != 0;
  4. the repository suite (baseline command) must still pass on the patched tree;
  5. the property's check(s) are run against the patched tree (VERIF_REPO) - exit 1 + VIOLATION expected.
Writes /verif/seeded/<property>-<name>/{patch.diff, demo.py, notes.md, meta.json}.
"""
import json
import os
import re
import shutil
import subprocess
import sys
import time

ROOT = os.path.dirname(os.path.dirname(os.path.abspath(__file__)))


def sh(cmd, cwd=None, env=None, timeout=3600):
    e = dict(os.environ)
    if env:
        e.update(env)
    p = subprocess.run(cmd, shell=True, cwd=cwd, env=e, capture_output=True, text=True, timeout=timeout)
    return p.returncode, (p.stdout or "") + (p.stderr or "")


def main():
    src, name, prop = sys.argv[1:4]
    checks = [prop]
    tier = "quick"
    skip_suite = False
    tag = ""
    for i, a in enumerate(sys.argv):
        if a == "--tag":
            tag = sys.argv[i + 1]
        if a == "--checks":
            checks = sys.argv[i + 1].split(",")
            if checks == ["ALL"]:
                checks = ["C%02d" % k for k in range(1, 21)]
        if a == "--tier":
            tier = sys.argv[i + 1]
        if a == "--skip-suite":
            skip_suite = True
    sid = f"{prop}-{tag}{name}"
    wt = f"/tmp/sv/{sid}"
    os.makedirs("/tmp/sv", exist_ok=True)
    sh(f"git -C /repo worktree remove --force {wt}")
    shutil.rmtree(wt, ignore_errors=True)
    rc, out = sh(f"git -C /repo worktree add --detach {wt} HEAD")
    assert rc == 0, out
    meta = {"id": sid, "property": prop, "name": name, "source": src, "repo_head": sh("git -C /repo rev-parse --short HEAD")[1].strip(), "ran": []}
    try:
        diff = os.path.join(src, name + ".diff")
        demo = os.path.join(src, name + "_demo.py")
        env = {"PYTHONPATH": wt, "PYTHONDONTWRITEBYTECODE": "1"}
        rc0, o0 = sh(f"/venv/bin/python -B {demo}", cwd="/tmp", env=env, timeout=900)
        meta["demo_clean_exit"] = rc0
        rc, o = sh(f"git apply {diff}", cwd=wt)
        meta["patch_applies"] = rc == 0
        if rc != 0:
            meta["apply_output"] = o[-500:]
            return finish(meta, src, name, sid)
        rc1, o1 = sh(f"/venv/bin/python -B {demo}", cwd="/tmp", env=env, timeout=900)
        meta["demo_patched_exit"] = rc1
        meta["demo_patched_tail"] = o1[-400:]
        meta["ran"].append(f"PYTHONPATH=<scratch> /venv/bin/python {name}_demo.py  (clean: exit {rc0}, patched: exit {rc1})")
        if not skip_suite:
            t0 = time.time()
            rc, o = sh(
                "/venv/bin/python -m pytest -ra -q -p no:cacheprovider --timeout=900 --continue-on-collection-errors -p no:randomly 2>&1 | tail -15",
                cwd=wt,
                env=env,
            )
            m = re.search(r"(\d+) passed", o)
            f = re.search(r"(\d+) failed", o)
            meta["suite_passed"] = int(m.group(1)) if m else None
            meta["suite_failed"] = int(f.group(1)) if f else 0
            meta["suite_tail"] = o[-300:]
            meta["ran"].append(f"repository suite on the patched tree: {meta['suite_passed']} passed, {meta['suite_failed']} failed ({time.time() - t0:.0f}s)")
        meta["checks"] = {}
        for c in checks:
            t0 = time.time()
            rc, o = sh(f"/venv/bin/python -B run_check.py {c} --tier {tier} --no-evidence", cwd=ROOT, env={"VERIF_REPO": wt})
            lines = [l for l in o.splitlines() if l.startswith(f"[{c}]") and ":" in l and "evaluations=" not in l and " OK " not in l]
            meta["checks"][c] = {"exit": rc, "wall_s": round(time.time() - t0, 1), "violations": [l[:300] for l in lines[:4]]}
            meta["ran"].append(f"VERIF_REPO=<scratch> run_check.py {c} --tier {tier}: exit {rc}")
        meta["detected_by"] = [c for c, r in meta["checks"].items() if r["exit"] == 1]
        return finish(meta, src, name, sid)
    finally:
        sh(f"git -C /repo worktree remove --force {wt}")
        shutil.rmtree(wt, ignore_errors=True)
        shutil.rmtree(os.path.join(ROOT, "replays"), ignore_errors=True)


def finish(meta, src, name, sid):
    d = os.path.join(ROOT, "seeded", sid)
    os.makedirs(d, exist_ok=True)
    for a, b in ((name + ".diff", "patch.diff"), (name + "_demo.py", "demo.py"), (name + "_notes.md", "notes.md")):
        if os.path.exists(os.path.join(src, a)):
            shutil.copy(os.path.join(src, a), os.path.join(d, b))
    notes = os.path.join(d, "notes.md")
    meta["needs_to_manifest"] = open(notes).read()[:1500] if os.path.exists(notes) else ""
    valid = meta.get("patch_applies") and meta.get("demo_clean_exit") == 0 and meta.get("demo_patched_exit", 0) != 0 and meta.get("suite_failed", 0) == 0
    meta["valid_seed"] = bool(valid)
    with open(os.path.join(d, "meta.json"), "w") as f:
        json.dump(meta, f, indent=1)
    print(json.dumps({k: meta.get(k) for k in ("id", "valid_seed", "demo_clean_exit", "demo_patched_exit", "suite_passed", "suite_failed", "detected_by")}))
    for c, r in meta.get("checks", {}).items():
        for v in r["violations"][:2]:
            print("   ", v[:220])


if __name__ == "__main__":
    main()
