#!/bin/bash
# run_all.sh [tier] [seed]  - every registered check, sequentially; prints exit code and wall time per property
cd "$(dirname "$0")/.."
tier=${1:-quick}; seed=${2:-1}
for p in C01 C02 C03 C04 C05 C06 C07 C08 C09 C10 C11 C12 C13 C14 C15 C16 C17 C18 C19 C20; do
  s=$(date +%s)
  out=$(VERIF_SEED=$seed /venv/bin/python -B run_check.py $p --tier $tier ${RUN_ALL_ARGS} 2>&1)
  rc=$?
  e=$(date +%s)
  echo "$p exit=$rc wall=$((e-s))s $(echo "$out" | grep -E 'VIOLATION|HARNESS-ERROR|KNOWN-FINDING' | cut -c1-160 | head -3 | tr '\n' ' ')"
done
