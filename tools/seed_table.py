#!/usr/bin/env python3
"""Writes seeded/INDEX.md: one row per seeded change (what it needs to manifest, which check caught it)."""
import glob, json, os, re
ROOT = os.path.dirname(os.path.dirname(os.path.abspath(__file__)))
rows = []
for mp in sorted(glob.glob(os.path.join(ROOT, "seeded", "*", "meta.json"))):
    m = json.load(open(mp))
    d = os.path.dirname(mp)
    notes = open(os.path.join(d, "notes.md")).read() if os.path.exists(os.path.join(d, "notes.md")) else ""
    title = next((l.strip("# ").strip() for l in notes.splitlines() if l.strip()), "")
    files = sorted(set(re.findall(r"^\+\+\+ b/(\S+)", open(os.path.join(d, "patch.diff")).read(), re.M)))
    viol = []
    for c, r in m.get("checks", {}).items():
        for v in r.get("violations", [])[:1]:
            mm = re.match(r"\[(C\d+)\] (\S+): ([\w-]+):", v)
            if mm:
                viol.append(f"{mm.group(1)}/{mm.group(2)} `{mm.group(3)}`")
    hist = m.get("history", "")
    rows.append((m["id"], ", ".join(f.replace("menelaus/", "") for f in files), title[:150], "yes" if m.get("valid_seed") else "NO", ", ".join(m.get("detected_by", [])) or "-", "; ".join(viol), hist))
with open(os.path.join(ROOT, "seeded", "INDEX.md"), "w") as f:
    f.write("# Seeded changes (written by independent sub-agents that saw only the property text)\n\n")
    f.write("Each directory holds `patch.diff`, `demo.py` (fails with the patch, passes without), `notes.md` (what it needs to manifest) and `meta.json` (what was run: demo on clean / patched tree, repository suite on the patched tree, the property's quick check with VERIF_REPO pointing at the patched scratch worktree).\n\n")
    f.write("| id | files | change | valid | caught by (quick) | first violation reported | note |\n|---|---|---|---|---|---|---|\n")
    for r in rows:
        f.write("| " + " | ".join(str(x).replace("|", "/") for x in r) + " |\n")
print(len(rows), "rows")
