#!/usr/bin/env python3
"""Mechanical sensitivity test of the checks (complements the hand-written changes under seeded/).

mutate.py list  [--per-file K] [--seed S]           print the sampled mutants (file, line, operator, before -> after)
mutate.py run   <outdir> [--per-file K] [--seed S] [--par P] [--jobs J] [--only file-substring]
                                                    for every sampled mutant: copy <VERIF_REPO or /repo>/menelaus to a
                                                    scratch dir under /tmp/mut, apply it, run the checks mapped to
                                                    that file (quick tier, stop at the first that reports a violation);
                                                    for mutants nobody reports, run the repository's own suite as well.
                                                    One JSON line per mutant in <outdir>/results.jsonl (resumable).
mutate.py extend <outdir> [--par P] [--jobs J]       second pass: survivors of the mapped checks are run against all other checks
mutate.py table <outdir>                            summary by file and by operator, list of survivors

Mutation operators: comparison boundary (< <=, > >=), comparison negation (== !=, is / is not, in / not in),
arithmetic (+ -, * /), augmented assignment (+= -=), and/or, dropped `not`, negated `if`, small integer constants
(0 1 2), deleted assignment to an attribute of self (outside __init__), deleted call statement.
Nothing here is ever applied to /repo itself."""
import ast, json, os, random, re, shutil, subprocess, sys, time
from concurrent.futures import ThreadPoolExecutor

ROOT = os.path.dirname(os.path.dirname(os.path.abspath(__file__)))
REPO = os.environ.get("VERIF_REPO", "/repo")

CHECKS = {
    "detector.py": ["C14", "C15", "C01", "C02", "C18"],
    "change_detection/adwin.py": ["C03", "C01", "C17", "C14"],
    "change_detection/cusum.py": ["C04", "C02", "C01", "C17", "C14"],
    "change_detection/page_hinkley.py": ["C04", "C02", "C01", "C17", "C14"],
    "concept_drift/adwin_accuracy.py": ["C03", "C16", "C14"],
    "concept_drift/ddm.py": ["C05", "C02", "C01", "C16", "C17"],
    "concept_drift/eddm.py": ["C05", "C02", "C01", "C16", "C17"],
    "concept_drift/stepd.py": ["C05", "C02", "C01", "C16", "C17"],
    "concept_drift/lfr.py": ["C06", "C01", "C16", "C17", "C14"],
    "concept_drift/md3.py": ["C19", "C01", "C15"],
    "data_drift/histogram_density_method.py": ["C07", "C02", "C18", "C17", "C01", "C14", "C12"],
    "data_drift/hdddm.py": ["C07", "C02", "C01", "C18", "C17"],
    "data_drift/cdbd.py": ["C07", "C02", "C01", "C18", "C14"],
    "data_drift/kdq_tree.py": ["C09", "C02", "C18", "C17", "C01", "C14", "C12"],
    "data_drift/nndvi.py": ["C10", "C01", "C18", "C02", "C17", "C14"],
    "data_drift/pca_cd.py": ["C11", "C01", "C14", "C15"],
    "partitioners/KDQTreePartitioner.py": ["C08", "C09", "C18"],
    "partitioners/NNSpacePartitioner.py": ["C10", "C18"],
    "ensemble/ensemble.py": ["C12", "C14", "C15"],
    "ensemble/election.py": ["C13", "C12"],
    "injection/injector.py": ["C20", "C15"],
    "injection/noise.py": ["C20", "C15"],
    "injection/feature_manipulation.py": ["C20", "C15"],
    "injection/label_manipulation.py": ["C20", "C15"],
}

CMP = {ast.Lt: ast.LtE, ast.LtE: ast.Lt, ast.Gt: ast.GtE, ast.GtE: ast.Gt, ast.Eq: ast.NotEq, ast.NotEq: ast.Eq,
       ast.Is: ast.IsNot, ast.IsNot: ast.Is, ast.In: ast.NotIn, ast.NotIn: ast.In}
BIN = {ast.Add: ast.Sub, ast.Sub: ast.Add, ast.Mult: ast.Div, ast.Div: ast.Mult}


def _stringy(n):
    return isinstance(n, ast.JoinedStr) or (isinstance(n, ast.Constant) and isinstance(n.value, str))


class Finder(ast.NodeVisitor):
    def __init__(self):
        self.out = []  # (node, operator-name, replacement-node-or-source)
        self.func = []
        self.in_raise = 0

    def visit_FunctionDef(self, node):
        self.func.append(node.name)
        body = node.body
        for st_ in body:
            self.visit(st_)
        self.func.pop()

    def visit_Raise(self, node):
        return  # messages and exception types are not mutated

    def visit_Assert(self, node):
        return

    def add(self, node, op, new):
        self.out.append((node, op, new))

    def visit_Compare(self, node):
        if len(node.ops) == 1 and type(node.ops[0]) in CMP:
            new = ast.Compare(left=node.left, ops=[CMP[type(node.ops[0])]()], comparators=node.comparators)
            kind = "cmp-boundary" if type(node.ops[0]) in (ast.Lt, ast.LtE, ast.Gt, ast.GtE) else "cmp-negate"
            self.add(node, kind, new)
        self.generic_visit(node)

    def visit_BinOp(self, node):
        if type(node.op) in BIN and not _stringy(node.left) and not _stringy(node.right):
            self.add(node, "arith", ast.BinOp(left=node.left, op=BIN[type(node.op)](), right=node.right))
        self.generic_visit(node)

    def visit_AugAssign(self, node):
        if type(node.op) in (ast.Add, ast.Sub):
            self.add(node, "augassign", ast.AugAssign(target=node.target, op=BIN[type(node.op)](), value=node.value))
        self.generic_visit(node)

    def visit_BoolOp(self, node):
        new = ast.BoolOp(op=ast.Or() if isinstance(node.op, ast.And) else ast.And(), values=node.values)
        self.add(node, "and-or", new)
        self.generic_visit(node)

    def visit_UnaryOp(self, node):
        if isinstance(node.op, ast.Not):
            self.add(node, "drop-not", node.operand)
        self.generic_visit(node)

    def visit_If(self, node):
        self.add(node.test, "negate-if", ast.UnaryOp(op=ast.Not(), operand=node.test))
        self.generic_visit(node)

    def visit_Constant(self, node):
        if type(node.value) is int and node.value in (0, 1, 2):
            self.add(node, "const", ast.Constant(value={0: 1, 1: 2, 2: 1}[node.value]))

    def visit_Assign(self, node):
        t = node.targets[0]
        if (len(node.targets) == 1 and isinstance(t, ast.Attribute) and isinstance(t.value, ast.Name) and t.value.id == "self"
                and self.func and self.func[-1] != "__init__"):
            self.add(node, "del-assign", "pass")
        self.generic_visit(node)

    def visit_Expr(self, node):
        if isinstance(node.value, ast.Call):
            self.add(node, "del-call", "pass")
            self.generic_visit(node)
        # docstrings and bare expressions: nothing


def mutants_of(rel):
    path = os.path.join(REPO, "menelaus", rel)
    src = open(path).read()
    tree = ast.parse(src)
    f = Finder()
    f.visit(tree)
    lines = src.splitlines(keepends=True)
    offs = [0]
    for l in lines:
        offs.append(offs[-1] + len(l.encode()))
    bsrc = src.encode()
    out = []
    for node, op, new in f.out:
        a = offs[node.lineno - 1] + node.col_offset
        b = offs[node.end_lineno - 1] + node.end_col_offset
        before = bsrc[a:b].decode()
        after = new if isinstance(new, str) else ast.unparse(ast.fix_missing_locations(new))
        if not isinstance(new, str) and not isinstance(node, ast.stmt):
            after = "(" + after + ")"
        msrc = (bsrc[:a] + after.encode() + bsrc[b:]).decode()
        try:
            compile(msrc, path, "exec")
        except SyntaxError:
            continue
        out.append({"file": rel, "line": node.lineno, "op": op, "before": " ".join(before.split())[:90], "after": " ".join(after.split())[:90], "_src": msrc})
    return out


def sample(per_file, seed, only=None):
    rng = random.Random(seed)
    res = []
    for rel in sorted(CHECKS):
        if only and only not in rel:
            continue
        ms = mutants_of(rel)
        for i, m in enumerate(ms):
            m["id"] = f"{rel.replace('/', '.')[:-3]}#{i}"
            m["n_sites"] = len(ms)
        rng.shuffle(ms)
        res.extend(sorted(ms[:per_file], key=lambda m: m["line"]))
    return res


def _with_ids(rel):
    ms = mutants_of(rel)
    for i, m in enumerate(ms):
        m["id"] = f"{rel.replace('/', '.')[:-3]}#{i}"
        m["n_sites"] = len(ms)
    return ms


def run_one(m, jobs, seed, checks=None, suite=True):
    d = f"/tmp/mut/{m['id'].replace('#', '_')}"
    shutil.rmtree(d, ignore_errors=True)
    os.makedirs(d)
    shutil.copytree(os.path.join(REPO, "menelaus"), d + "/menelaus")
    open(os.path.join(d, "menelaus", m["file"]), "w").write(m["_src"])
    rec = {k: v for k, v in m.items() if k != "_src"}
    rec["checks"] = []
    rec["verdict"] = "survived"
    t0 = time.time()
    try:
        for c in (checks if checks is not None else CHECKS[m["file"]]):
            env = dict(os.environ, VERIF_REPO=d, VERIF_SEED=str(seed), VERIF_JOBS=str(jobs), VERIF_TASK_TIMEOUT="400", PYTHONDONTWRITEBYTECODE="1")
            try:
                p = subprocess.run(["/venv/bin/python", "-B", "run_check.py", c, "--tier", "quick", "--no-evidence"], cwd=ROOT, env=env, capture_output=True, text=True, timeout=1500)
                rc = p.returncode
                line = next((l for l in p.stdout.splitlines() if l.startswith("VIOLATION")), "")
            except subprocess.TimeoutExpired:
                rc, line = "timeout", ""
            rec["checks"].append([c, rc])
            if rc == 1 and line:
                rec["verdict"] = "reported"
                rec["by"] = c
                break
        if rec["verdict"] != "reported" and suite:
            if any(rc in (2, "timeout") for _, rc in rec["checks"]):
                rec["verdict"] = "inconclusive"
            # is it a change the repository's own tests would have stopped?
            shutil.copytree(os.path.join(REPO, "tests"), d + "/tests")
            os.makedirs(d + "/.git", exist_ok=True)  # tests/menelaus/utils looks for the checkout root
            for extra in ("setup.cfg", "pyproject.toml", "setup.py", "conftest.py"):
                if os.path.exists(os.path.join(REPO, extra)):
                    shutil.copy(os.path.join(REPO, extra), d)
            try:
                p = subprocess.run("/venv/bin/python -m pytest -q -x -p no:cacheprovider --timeout=600 -p no:randomly 2>&1 | tail -5", shell=True, cwd=d,
                                   env=dict(os.environ, PYTHONPATH=d, PYTHONDONTWRITEBYTECODE="1"), capture_output=True, text=True, timeout=1800)
                o = p.stdout
                rec["suite"] = "fails" if re.search(r"\d+ failed|error", o) else ("passes" if re.search(r"\d+ passed", o) else "unknown")
                rec["suite_tail"] = o[-200:]
            except subprocess.TimeoutExpired:
                rec["suite"] = "timeout"
    finally:
        shutil.rmtree(d, ignore_errors=True)
    rec["wall_s"] = round(time.time() - t0, 1)
    return rec


def opt(name, default, cast=int):
    return cast(sys.argv[sys.argv.index(name) + 1]) if name in sys.argv else default


def main():
    cmd = sys.argv[1]
    per_file, seed = opt("--per-file", 12), opt("--seed", 1)
    if cmd == "list":
        ms = sample(per_file, seed, opt("--only", None, str))
        for m in ms:
            print(f"{m['id']:55s} L{m['line']:<4d} {m['op']:13s} {m['before']}  ->  {m['after']}")
        print(len(ms), "mutants sampled;", "sites per file:", {m["file"]: m["n_sites"] for m in ms})
    elif cmd == "run":
        out = sys.argv[2]
        os.makedirs(out, exist_ok=True)
        resf = os.path.join(out, "results.jsonl")
        done = set()
        if os.path.exists(resf):
            done = {json.loads(l)["id"] for l in open(resf)}
        ms = [m for m in sample(per_file, seed, opt("--only", None, str)) if m["id"] not in done]
        par, jobs = opt("--par", 2), opt("--jobs", 8)
        with ThreadPoolExecutor(par) as ex, open(resf, "a") as fh:
            for rec in ex.map(lambda m: run_one(m, jobs, opt("--check-seed", 1)), ms):
                fh.write(json.dumps(rec) + "\n")
                fh.flush()
                print(rec["id"], rec["verdict"], rec.get("by", ""), rec.get("suite", ""), rec["wall_s"], flush=True)
    elif cmd == "extend":
        # second pass: mutants that no mapped check reported and the repository suite accepts are run against all other checks
        out = sys.argv[2]
        resf = os.path.join(out, "results.jsonl")
        recs = [json.loads(l) for l in open(resf)]
        byid = {m["id"]: m for rel in sorted(CHECKS) for m in _with_ids(rel)}
        todo = [r for r in recs if r["verdict"] != "reported" and r.get("suite") == "passes" and not r.get("extended")]
        par, jobs = opt("--par", 2), opt("--jobs", 8)
        allc = ["C%02d" % k for k in range(1, 21)]

        def ext(r):
            m = byid[r["id"]]
            assert (m["line"], m["op"], m["before"]) == (r["line"], r["op"], r["before"]), r["id"]
            rest = [c for c in allc if c not in [x[0] for x in r["checks"]]]
            saved = CHECKS[m["file"]]
            rec = run_one(m, jobs, opt("--check-seed", 1), checks=rest, suite=False)
            r["checks"] += rec["checks"]
            r["extended"] = True
            if rec["verdict"] == "reported":
                r["verdict"], r["by"] = "reported", rec["by"]
            return r

        with ThreadPoolExecutor(par) as ex:
            for r in ex.map(ext, todo):
                print(r["id"], r["verdict"], r.get("by", ""), flush=True)
                with open(resf, "w") as fh:
                    fh.writelines(json.dumps(x) + "\n" for x in recs)
    elif cmd == "table":
        recs = [json.loads(l) for l in open(os.path.join(sys.argv[2], "results.jsonl"))]
        def tab(key):
            rows = {}
            for r in recs:
                k = r[key]
                row = rows.setdefault(k, {"n": 0, "reported": 0, "suite_only": 0, "survived": 0, "inconclusive": 0})
                row["n"] += 1
                if r["verdict"] == "reported":
                    row["reported"] += 1
                elif r.get("suite") == "fails":
                    row["suite_only"] += 1
                elif r["verdict"] == "inconclusive":
                    row["inconclusive"] += 1
                else:
                    row["survived"] += 1
            print(f"| {key} | mutants | reported by a check | only the repo suite fails | nobody (survivor) | inconclusive |")
            print("|---|---|---|---|---|---|")
            for k in sorted(rows):
                r = rows[k]
                print(f"| {k} | {r['n']} | {r['reported']} | {r['suite_only']} | {r['survived']} | {r['inconclusive']} |")
            t = {c: sum(r[c] for r in rows.values()) for c in ("n", "reported", "suite_only", "survived", "inconclusive")}
            print(f"| total | {t['n']} | {t['reported']} | {t['suite_only']} | {t['survived']} | {t['inconclusive']} |\n")
        tab("file")
        tab("op")
        print("survivors (no check reports them and the repository suite passes):")
        for r in recs:
            if r["verdict"] != "reported" and r.get("suite") != "fails":
                print(f"  {r['id']:50s} L{r['line']:<4d} {r['op']:12s} {r['before']}  ->  {r['after']}   [{r['verdict']}, suite {r.get('suite')}]")


if __name__ == "__main__":
    main()
