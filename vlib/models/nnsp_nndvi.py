"""Reference computations for NNSpacePartitioner / NNDVI (C10, C18)."""
import numpy as np
from scipy.stats import norm


def membership(sample1, sample2):
    """D (sorted distinct rows of the union), v1, v2 by set membership."""
    s1 = np.asarray(sample1, dtype=float)
    s2 = np.asarray(sample2, dtype=float)
    D = np.unique(np.vstack([s1, s2]), axis=0)
    S1 = {tuple(r) for r in s1.tolist()}
    S2 = {tuple(r) for r in s2.tolist()}
    v1 = np.array([1.0 if tuple(r) in S1 else 0.0 for r in D.tolist()])
    v2 = np.array([1.0 if tuple(r) in S2 else 0.0 for r in D.tolist()])
    return D, v1, v2


def knn_adjacency(D, k):
    from sklearn.neighbors import NearestNeighbors

    return NearestNeighbors(n_neighbors=k).fit(D).kneighbors_graph(D).toarray()


def normalise(adj):
    w = adj.sum(axis=1).astype(int)
    q = np.lcm.reduce(w)
    return adj * (q / w)[:, None]


def nnps_distance(M, v1, v2):
    a = v1 @ M
    b = v2 @ M
    return float(np.sum(np.abs(a - b) / (a + b)) / len(v1))


def permutation_threshold(M, v_ref, sampling_times, alpha):
    ds = []
    for _ in range(sampling_times):
        s = np.random.permutation(v_ref)
        ds.append(nnps_distance(M, s, 1 - s))
    mu = float(np.mean(ds))
    sd = float(np.std(ds))
    if sd == 0:
        return None, mu, sd
    return float(norm.ppf(1 - alpha, mu, sd)), mu, sd


class NNDVIModel:
    def __init__(self, k_nn, sampling_times, alpha):
        self.k, self.T, self.alpha = k_nn, sampling_times, alpha
        self.ref = None
        self.ndrift = 0
        self.nondrift_after_drift = False
        self.state = None

    def clone(self):
        c = NNDVIModel.__new__(NNDVIModel)
        c.__dict__.update(self.__dict__)
        return c

    def set_reference(self, X):
        self.ref = np.asarray(X, dtype=float)

    def step(self, X, ch):
        X = np.asarray(X, dtype=float)
        self.state = None
        D, v1, v2 = membership(self.ref, X)
        M = normalise(knn_adjacency(D, self.k))
        d = nnps_distance(M, v1, v2)
        th, mu, sd = permutation_threshold(M, v1, self.T, self.alpha)
        if th is None:
            return {"degenerate": True, "state": None, "d": d, "th": None}
        if ch.gt(d, th, 1e-9 * (1 + abs(th))):
            self.state = "drift"
            self.ref = X
            self.ndrift += 1
        elif self.ndrift:
            self.nondrift_after_drift = True
        return {"degenerate": False, "state": self.state, "d": d, "th": th}
