"""Executable specifications of DDM, EDDM and STEPD (C05), written from the class
docstrings and the property statement.  Floating-point decisions go through a
tolerant Chooser (vlib.tolerant) so that exact ties admit both outcomes."""
import math
from fractions import Fraction

TOL = 1e-9


class _Base:
    def clone(self):
        c = self.__class__.__new__(self.__class__)
        c.__dict__.update(self.__dict__)
        c.recs = list(self.recs)
        return c

    def _recs_first_warning(self):
        if self.state == "warning" and self.recs[0] is None:
            self.recs[0] = self.total - 1
        if self.state == "drift":
            self.recs[1] = self.total - 1
            if self.recs[0] is None:
                self.recs[0] = self.total - 1

    def out(self):
        return (self.state, tuple(self.recs))


class DDMSpec(_Base):
    def __init__(self, n_threshold, warning_scale, drift_scale):
        self.nt, self.ws, self.ds = n_threshold, warning_scale, drift_scale
        self.total = 0
        self.reset()

    def reset(self):
        self.n = 0
        self.p = 0.0
        self.s = 0.0
        self.pmin = math.inf
        self.smin = math.inf
        self.recs = [None, None]
        self.state = None

    def step(self, err, ch):
        if self.state == "drift":
            self.reset()
        self.total += 1
        self.n += 1
        pp = self.p
        self.p = self.p + (err - self.p) / self.n
        # the repository's running deviation: the stored value is re-used under the root
        self.s = math.sqrt(max(0.0, (self.s + (err - self.p) * (err - pp)) / self.n))
        if self.n < self.nt:
            return self.out()
        level = self.p + self.s
        if self.pmin == math.inf or ch.le(level, self.pmin + self.smin, TOL):
            self.pmin, self.smin = self.p, self.s
        if self._ge(level, self.ds, ch):
            self.state = "drift"
        elif self._ge(level, self.ws, ch):
            self.state = "warning"
        else:
            self.state = None
        self._recs_first_warning()
        return self.out()


    def _ge(self, level, k, ch):
        """documented test ``p_i + s_i >= p_min + k * s``.  Two kinds of tie are exact in every floating-point evaluation and
        are therefore decided as documented (>=) instead of being left open: the deviation is exactly 0 (a prefix of only
        correct or only wrong predictions: every quantity is 0 or 1), or the current point has just become the minimum and
        k == 1 (both sides are then the same expression p + s)."""
        rhs = self.pmin + k * self.s
        if self.pmin == self.p and (self.s == 0.0 or k == 1):
            return True
        return ch.ge(level, rhs, TOL)


class EDDMSpec(_Base):
    def __init__(self, n_threshold, warning_thresh, drift_thresh):
        self.nt, self.wt, self.dt = n_threshold, warning_thresh, drift_thresh
        self.total = 0
        self.reset()

    def reset(self):
        self.n = 0
        self.ne = 0
        self.last = 0
        self.m = 0.0
        self.sd = 0.0
        self.mx = 0.0
        self.recs = [None, None]
        self.state = None

    def step(self, err, ch):
        if self.state == "drift":
            self.reset()
        self.total += 1
        self.n += 1
        if not err:
            return self.out()  # state unchanged on correct samples
        self.ne += 1
        d = (self.n - 1) - self.last
        self.last = self.n - 1
        pm = self.m
        self.m = self.m + (d - self.m) / self.ne
        self.sd = math.sqrt(max(0.0, (self.sd + (d - self.m) * (d - pm)) / self.ne))
        if self.ne < self.nt:
            return self.out()
        cur = self.m + 2 * self.sd
        if cur > self.mx:
            self.mx = cur
        if self.mx == 0:
            # ratio undefined: no alarm
            self.state = None
            return self.out()
        r = cur / self.mx
        if ch.le(r, self.dt, TOL):
            self.state = "drift"
        elif ch.le(r, self.wt, TOL):
            self.state = "warning"
        else:
            self.state = None
        self._recs_first_warning()
        return self.out()


class STEPDSpec(_Base):
    def __init__(self, window_size, alpha_warning, alpha_drift):
        self.w, self.aw, self.ad = window_size, alpha_warning, alpha_drift
        self.total = 0
        self.reset()

    def reset(self):
        self.n = 0
        self.win = ()  # last w results (1 = correct)
        self.r = 0  # correct before the window
        self.recs = [None, None]
        self.state = None

    def accuracies(self):
        """(recent, past, overall) as Fractions, 0 where undefined (as documented
        by the accessor methods)."""
        nw = len(self.win)
        rec = Fraction(sum(self.win), nw) if nw else Fraction(0)
        past = Fraction(self.r, self.n - nw) if self.n - nw else Fraction(0)
        ov = Fraction(self.r + sum(self.win), self.n) if self.n else Fraction(0)
        return rec, past, ov

    def step(self, err, ch):
        if self.state == "drift":
            self.reset()
        self.total += 1
        self.n += 1
        win = self.win + (1 - err,)
        if len(win) > self.w:
            self.r += win[0]
            win = win[1:]
        self.win = win
        if self.n >= 2 * self.w:
            pr, pp, po = self.accuracies()
            h = Fraction(1, self.n - self.w) + Fraction(1, self.w)
            num = float(abs(pp - pr) - h / 2)
            den2 = float(po * (1 - po) * h)
            if den2 <= 0:
                p = 1.0 if num < 0 else 0.0
            else:
                z = num / math.sqrt(den2)
                p = 0.5 * math.erfc(z / math.sqrt(2))
            dec = pp > pr  # exact rational comparison
            if dec and ch.lt(p, self.ad, TOL):
                self.state = "drift"
            elif dec and ch.lt(p, self.aw, TOL):
                self.state = "warning"
            else:
                self.state = None
            if self.state is None:
                self.recs = [None, None]
            elif self.recs[0] is None:
                self.recs = [self.total - 1, self.total - 1]
            else:
                self.recs[1] = self.total - 1
        return self.out()
