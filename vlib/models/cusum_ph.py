"""Reference models of CUSUM and Page-Hinkley (C04), written from the property
statement and the class docstrings."""
import math
from fractions import Fraction

REL = 1e-9


def _mean_sd(w):
    mu = math.fsum(w) / len(w)
    sd = math.sqrt(math.fsum((a - mu) ** 2 for a in w) / len(w))
    return mu, sd


class CusumModel:
    def __init__(self, target, sd_hat, burn_in, delta, threshold, direction):
        self.mu, self.sd = target, sd_hat
        self.burn, self.delta, self.thr, self.dir = burn_in, delta, threshold, direction
        self.hist = []
        self.n = 0
        self.total = 0
        self.sh = 0.0
        self.sl = 0.0
        self.state = None
        self.degenerate = False
        self.reestimated = False

    def clone(self):
        c = CusumModel.__new__(CusumModel)
        c.__dict__.update(self.__dict__)
        c.hist = self.hist  # append-only, shared; length tracked by total
        return c

    def step(self, x, ch):
        hist = self.hist[: self.total]
        if self.state == "drift":
            w = hist[-self.burn :]
            self.mu, self.sd = _mean_sd(w)
            self.n = 0
            self.sh = self.sl = 0.0
            self.state = None
            self.reestimated = True
        self.n += 1
        self.total += 1
        if len(self.hist) < self.total:
            self.hist.append(x)
        hist = self.hist[: self.total]
        if self.mu is None and self.n == self.burn:
            self.mu, self.sd = _mean_sd(hist)
        if self.mu is not None:
            if self.sd == 0:
                self.degenerate = True
                return {"state": None, "degenerate": True}
            z = (x - self.mu) / self.sd
            self.sh = max(0.0, self.sh + z - self.delta)
            self.sl = max(0.0, self.sl - z - self.delta)
        if self.n > self.burn:
            up = ch.gt(self.sh, self.thr, REL * (1 + abs(self.thr) + abs(self.sh)))
            lo = ch.gt(self.sl, self.thr, REL * (1 + abs(self.thr) + abs(self.sl)))
            if (self.dir is None and (up or lo)) or (self.dir == "positive" and up) or (self.dir == "negative" and lo):
                self.state = "drift"
        return {"state": self.state, "degenerate": False, "n": self.n, "sh": self.sh, "sl": self.sl}


class PageHinkleyModel:
    def __init__(self, delta, threshold, burn_in, direction, exact_zero=False):
        # exact_zero: the caller knows the observations exactly (C04 feeds them itself); then an all-zero epoch is decided strictly
        self.exact_zero = exact_zero
        self.delta = Fraction(delta)
        self.thr = Fraction(threshold)
        self.burn = burn_in
        self.dir = direction
        self.total = 0
        self.exact_tests = 0
        self.reset()

    def reset(self):
        self.n = 0
        self.mean = Fraction(0)
        self.sum = Fraction(0)
        self.min = Fraction(0)
        self.max = Fraction(0)
        self.state = None
        self.rows = 0
        self.all_zero = True  # every observation of the epoch so far is exactly 0.0

    def clone(self):
        c = PageHinkleyModel.__new__(PageHinkleyModel)
        c.__dict__.update(self.__dict__)
        return c

    def step(self, x, ch):
        if self.state == "drift":
            self.reset()
        x = Fraction(x)
        self.n += 1
        self.total += 1
        self.mean += (x - self.mean) / self.n
        self.sum += x - self.mean - self.delta
        self.min = min(self.min, self.sum)
        self.max = max(self.max, self.sum)
        ph = self.sum - self.min if self.dir == "positive" else self.max - self.sum
        th = self.thr * self.mean
        phf, thf = float(ph), float(th)
        self.all_zero = self.all_zero and x == 0
        if self.exact_zero and self.all_zero and self.delta * 2 ** 40 == int(self.delta * 2 ** 40):
            # an all-zero epoch (e.g. the error indicator of a perfect classifier) with a dyadic delta: mean, threshold * mean
            # and the sums of -delta are computed without rounding in every evaluation order, so "larger than" is decided exactly
            check = ph > th
            self.exact_tests += self.n > self.burn
        else:
            check = ch.gt(phf, thf, REL * (1 + abs(phf) + abs(thf)))
        if check and self.n > self.burn:
            self.state = "drift"
        self.rows += 1
        return {
            "state": self.state,
            "n": self.n,
            "row": {
                "change_scores": float(x),
                "page_hinkley_values": float(self.sum),
                "page_hinkley_differences": phf,
                "theta_threshold": thf,
                "drift_detected": bool(check),
                "maximum_sum_values": float(self.max),
                "minimum_sum_values": float(self.min),
                "mean_values": float(self.mean),
            },
            "rows": self.rows,
        }
