"""Reference model of Linear Four Rates (C06)."""
import itertools
from fractions import Fraction

import numpy as np

RATES = ["tpr", "tnr", "ppv", "npv"]
TOL = 1e-9


def sim_bounds(p, N, eta, warning_level, detect_level, num_mc):
    """Monte-Carlo bounds of R = (1-eta) * sum_i eta^(N-i) * Bernoulli(p), i=1..N:
    num_mc replicates, each one draw of N Bernoulli variables through numpy's global RNG."""
    w = np.array([eta ** (N - i) for i in range(1, N + 1)])
    R = np.empty(num_mc)
    for j in range(num_mc):
        b = np.random.binomial(n=1, p=p, size=N)
        R[j] = (1 - eta) * float(np.sum(w * b))
    return (
        float(np.percentile(R, warning_level * 100)),
        float(np.percentile(R, 100 - warning_level * 100)),
        float(np.percentile(R, detect_level * 100)),
        float(np.percentile(R, 100 - detect_level * 100)),
    )


def exact_distribution(p, N, eta):
    """support values and probabilities of R by enumeration of all 2^N outcomes"""
    w = [eta ** (N - i) for i in range(1, N + 1)]
    vals = {}
    for bits in itertools.product([0, 1], repeat=N):
        r = (1 - eta) * sum(wi for wi, b in zip(w, bits) if b)
        k = sum(bits)
        pr = (p**k) * ((1 - p) ** (N - k))
        key = round(r, 12)
        vals[key] = vals.get(key, 0.0) + pr
    xs = sorted(vals)
    return xs, [vals[x] for x in xs]


class LfrModel:
    def __init__(self, time_decay_factor, warning_level, detect_level, burn_in, num_mc, subsample, rates_tracked, round_val):
        self.eta, self.wl, self.dl = time_decay_factor, warning_level, detect_level
        self.burn, self.mc, self.sub = burn_in, num_mc, subsample
        self.tracked, self.rv = list(rates_tracked), round_val
        self.cache = {}
        self.total = 0
        self.all = []
        self.resets = 0
        self.cache_hit_after_reset = False
        self.untracked_outside = False
        self.reset()

    def clone(self):
        c = LfrModel.__new__(LfrModel)
        c.__dict__.update(self.__dict__)
        c.C = dict(self.C)
        c.R = dict(self.R)
        c.recs = list(self.recs)
        c.all = list(self.all)
        c.cache = dict(self.cache)
        return c

    def reset(self):
        self.C = {(0, 0): 1, (0, 1): 1, (1, 0): 1, (1, 1): 1}  # (pred, true)
        self.R = {r: 0.5 for r in RATES}
        self.n = 0
        self.recs = [None, None]
        self.state = None

    def rates(self):
        tn, fn, fp, tp = self.C[(0, 0)], self.C[(0, 1)], self.C[(1, 0)], self.C[(1, 1)]
        return {"tpr": (tp, tp + fn), "tnr": (tn, tn + fp), "ppv": (tp, fp + tp), "npv": (tn, tn + fn)}

    def bounds(self, num, den):
        p = num / den
        key = (float(round(np.float64(p), self.rv)), den)
        if key not in self.cache:
            self.cache[key] = sim_bounds(p, den, self.eta, self.wl, self.dl, self.mc)
        elif self.resets:
            self.cache_hit_after_reset = True
        return self.cache[key]

    def step(self, yt, yp, ch):
        if self.state == "drift":
            self.reset()
            self.resets += 1
        self.total += 1
        self.n += 1
        self.C[(yp, yt)] += 1
        changed = {"tpr": yt == 1, "tnr": yt == 0, "ppv": yp == 1, "npv": yp == 0}
        warn = alarm = False
        rt = self.rates()
        for r in self.tracked:
            if changed[r]:
                self.R[r] = self.eta * self.R[r] + (1 - self.eta) * (1 if yt == yp else 0)
            if self.n > self.burn and self.n % self.sub == 0:
                num, den = rt[r]
                lw, uw, ld, ud = self.bounds(num, den)
                x = self.R[r]
                w_ = ch.lt(x, lw, TOL) or ch.gt(x, uw, TOL)
                a_ = ch.lt(x, ld, TOL) or ch.gt(x, ud, TOL)
                warn = warn or w_
                alarm = alarm or a_
        self.state = "drift" if alarm else ("warning" if warn else None)
        self.all.append(self.state)
        if self.state == "warning" and self.recs[0] is None:
            self.recs[0] = self.total - 1
        if self.state == "drift":
            self.recs[1] = self.total - 1
            if self.recs[0] is None:
                self.recs[0] = self.total - 1
        return {"state": self.state, "recs": tuple(self.recs), "n": self.n}
