"""Reference model of HDDDM / CDBD (C07) on numpy arrays."""
import math

import numpy as np
import pandas as pd
import scipy.stats


def hellinger(p, q):
    p = np.asarray(p, dtype=float)
    q = np.asarray(q, dtype=float)
    P = p / p.sum()
    Q = q / q.sum()
    return math.sqrt(float(np.sum((np.sqrt(Q) - np.sqrt(P)) ** 2)))


def js_distance(p, q):
    p = np.asarray(p, dtype=float)
    q = np.asarray(q, dtype=float)
    P = p / p.sum()
    Q = q / q.sum()
    M = (P + Q) / 2

    def kl(a, b):
        m = a > 0
        return float(np.sum(a[m] * np.log(a[m] / b[m])))

    return math.sqrt(max(0.0, 0.5 * kl(P, M) + 0.5 * kl(Q, M)))


class HdmModel:
    def __init__(self, divergence, detect_batch, statistic, significance, subsets, user_fn=None):
        if divergence == "H":
            self.div = hellinger
        elif divergence == "KL":
            self.div = js_distance
        else:
            self.div = user_fn
        self.db = detect_batch
        self.stat = statistic
        self.sig = significance
        self.subsets = subsets
        self.total = 0
        self.dist = {}
        self.eps = {}
        self.thr = {}
        self.pending = False
        self.ndrift = 0
        self.thr_in_later_epoch = False
        self.epoch = 0

    def clone(self):
        c = HdmModel.__new__(HdmModel)
        c.__dict__.update(self.__dict__)
        c.dist = dict(self.dist)
        c.eps = dict(self.eps)
        c.thr = dict(self.thr)
        c.epsl = list(self.epsl)
        return c

    def set_reference(self, X):
        self.ref = np.array(X, dtype=float)
        self.pending = False
        self._reset()

    def _reset(self):
        self.k = 0
        self.epsl = []
        self.prev = None
        self.prev_f = None
        if self.db == 1:
            h = int(len(self.ref) / 2)
            proxy = self.ref[h:]
            self.ref = self.ref[:h]
            self._step(proxy, None)
        self.ref_n = len(self.ref)

    def hist_pair(self, X):
        bins = int(math.floor(math.sqrt(len(self.ref))))
        out = []
        for f in range(X.shape[1]):
            lo = min(self.ref[:, f].min(), X[:, f].min())
            hi = max(self.ref[:, f].max(), X[:, f].max())
            r = np.histogram(self.ref[:, f], bins=bins, range=(lo, hi))[0].astype(float)
            t = np.histogram(X[:, f], bins=bins, range=(lo, hi))[0].astype(float)
            out.append((r, t, lo, hi, bins))
        return out

    def bootstrap_eps0(self, X):
        """replicates the documented bootstrap with pandas' own sample under the current numpy seed"""
        n_ref = len(self.ref)
        size = int((1 - (1 / self.subsets)) * n_ref)
        pairs = self.hist_pair(X)
        df = pd.DataFrame(self.ref)
        boots = []
        for _ in range(self.subsets):
            sub = df.sample(n=size, replace=True).to_numpy()
            boots.append([np.histogram(sub[:, f], bins=pairs[f][4], range=(pairs[f][2], pairs[f][3]))[0].astype(float) for f in range(self.ref.shape[1])])
        dists = []
        for a in range(len(boots)):
            for b in range(a + 1, len(boots)):
                dists.append(sum(self.div(boots[a][f], boots[b][f]) for f in range(self.ref.shape[1])))
        e = 0.0
        for a in range(len(dists)):
            for b in range(a + 1, len(dists)):
                e += abs(dists[a] - dists[b])
        return e / self.subsets

    def step(self, X, ch):
        X = np.array(X, dtype=float)
        if self.pending:
            self.pending = False
            self.epoch += 1
            self._reset()
        return self._step(X, ch)

    def _step(self, X, ch):
        self.total += 1
        self.k += 1
        pairs = self.hist_pair(X)
        fd = [self.div(r, t) for r, t, _, _, _ in pairs]
        d = sum(fd) / len(fd)
        self.dist[self.total] = d
        out = {"drift": False, "d": d, "eps": None, "beta": None, "fd": fd, "feps": None, "e0": None, "finfo": None}
        if self.prev_f is not None:
            out["feps"] = [a - b for a, b in zip(fd, self.prev_f)]
        drift = False
        if self.k >= 2:
            eps = abs(d - self.prev)
            self.eps[self.total] = eps
            out["eps"] = eps
            hist = list(self.epsl)
            can = (self.db != 3 and self.k >= 2) or (self.db == 3 and self.k >= 3)
            if can:
                if self.db != 3 and self.k == 2:
                    e0 = self.bootstrap_eps0(X)
                    out["e0"] = e0
                    hist = [e0]
                ds = self.k - 1
                ehat = sum(hist) / ds
                sd = math.sqrt(sum((e - ehat) ** 2 for e in hist) / ds)
                if self.stat == "tstat":
                    t = scipy.stats.t.ppf(1 - self.sig / 2, len(self.ref) + len(X) - 2)
                    beta = ehat + t * sd / math.sqrt(ds)
                else:
                    beta = ehat + self.sig * sd
                self.thr[self.total] = beta
                out["beta"] = beta
                if self.epoch >= 1:
                    self.thr_in_later_epoch = True
                drift = ch.gt(eps, beta, 1e-9 * (1 + abs(beta))) if ch is not None else eps > beta
            self.epsl.append(eps)
        if drift:
            if X.shape[1] > 1:
                out["finfo"] = {"Epsilons": out["feps"], "Feature_Distances": fd, "index": int(np.argmax(out["feps"]))}
            self.ref = X
            self.pending = True
            self.ndrift += 1
        else:
            self.prev = d
            self.prev_f = fd
            self.ref = np.vstack([self.ref, X])
            self.ref_n = len(self.ref)
        out["drift"] = drift
        out["ref_n"] = self.ref_n
        out["total"] = self.total
        out["k"] = self.k
        return out
