"""Reference model of PCA-CD (C11) on numpy arrays, using the same third-party
estimators (StandardScaler, PCA, KernelDensity, jensenshannon) the documentation
names; windows, schedule, per-component supports, divergences and the inner
Page-Hinkley test are the model's own."""
import math

import numpy as np
from scipy.spatial.distance import jensenshannon
from sklearn.decomposition import PCA
from sklearn.neighbors import KernelDensity
from sklearn.preprocessing import StandardScaler

from vlib.models.cusum_ph import PageHinkleyModel


class Degenerate(Exception):
    pass


def kde_density(x):
    bw = 1.06 * np.std(x, ddof=1) * len(x) ** (-1 / 5)
    if not bw > 0 or not math.isfinite(bw):
        raise Degenerate("zero bandwidth")
    if np.ptp(x) <= 1e-9 * max(1.0, float(np.max(np.abs(x)))):
        # a window that is constant up to rounding: whether its standard deviation comes out as exactly 0 (refused by
        # scikit-learn) or as ~1e-17 depends on the summation algorithm (numpy vs pandas), so it is outside the domain too
        raise Degenerate("zero bandwidth up to rounding")
    k = KernelDensity(bandwidth=bw, kernel="epanechnikov").fit(x.reshape(-1, 1))
    return np.exp(k.score_samples(x.reshape(-1, 1)))


def hist_density(x, bins, lo, hi):
    h = np.histogram(x, bins=bins, range=(lo, hi), density=True)[0]
    return h / np.sum(h)


def near_interior_edge(x, bins, lo, hi):
    """number of points whose bin is decided by the last bits (within 1e-9 of an interior edge)"""
    if not hi > lo:
        return 0
    edges = lo + (hi - lo) * np.arange(1, bins) / bins
    if len(edges) == 0:
        return 0
    d = np.abs(np.asarray(x)[:, None] - edges[None, :]).min(axis=1)
    return int(np.sum(d <= 1e-9 * (hi - lo)))


class PcaCdModel:
    def __init__(self, window_size, ev_threshold, delta, divergence_metric, sample_period, online_scaling):
        self.W = window_size
        self.ev = ev_threshold
        self.metric = divergence_metric
        self.scale = online_scaling
        self.step_every = min(100, round(sample_period * window_size))
        self.bins = int(math.floor(math.sqrt(window_size)))
        self.ph = PageHinkleyModel(delta, round(0.01 * window_size), 0, "positive")
        self.total = 0
        self.n = 0
        self.state = None
        self.building = True
        self.ref = []  # raw rows
        self.test = []  # rows as stored (scaled when online_scaling)
        self.scores = [0]
        self.num_pcs = None
        self.sc = None
        self.epoch = 0
        self.scores_in_epoch = 0

    def clone(self):
        c = PcaCdModel.__new__(PcaCdModel)
        c.__dict__.update(self.__dict__)
        c.ph = self.ph.clone()
        c.ref = list(self.ref)
        c.test = list(self.test)
        c.scores = list(self.scores)
        return c

    def _build(self):
        R = np.array(self.ref)
        T = np.array(self.test)
        if self.scale:
            self.sc = StandardScaler().fit(R)
            R = self.sc.transform(R)
            T = self.sc.transform(T)
        self.test = [r for r in T]
        self.pca = PCA(self.ev).fit(R)
        self.num_pcs = len(self.pca.components_)
        self.rp = self.pca.transform(R)
        self.tp = self.pca.transform(T)
        k = self.num_pcs
        self.lo = [min(self.rp[:, i].min(), self.tp[:, i].min()) for i in range(k)]
        self.hi = [max(self.rp[:, i].max(), self.tp[:, i].max()) for i in range(k)]
        self.uref = [0] * k
        if self.metric == "intersection":
            self.dref = [hist_density(self.rp[:, i], self.bins, self.lo[i], self.hi[i]) for i in range(k)]
            self.uref = [near_interior_edge(self.rp[:, i], self.bins, self.lo[i], self.hi[i]) for i in range(k)]
        else:
            self.dref = [kde_density(self.rp[:, i]) for i in range(k)]

    def step(self, x, ch, hint=None):
        """hint: the implementation's newest score; adopted only when some projected point sits on an
        interior bin edge (its bin is then decided by rounding) and the hint is within the resulting bound."""
        x = np.asarray(x, dtype=float).reshape(1, -1)
        self.edge_knife = False
        self.total += 1
        self.n += 1
        score = None
        if self.building:
            if self.state is not None:
                T = np.array(self.test)
                self.ref = [r for r in (self.sc.inverse_transform(T) if self.scale else T)]
                self.test = []
                self.n = 0
                self.state = None
                self.ph.reset()
                self.epoch += 1
                self.scores_in_epoch = 0
            elif len(self.ref) < self.W:
                self.ref.append(x[0])
            elif len(self.test) < self.W:
                self.test.append(x[0])
            if len(self.test) == self.W:
                self.building = False
                self._build()
        else:
            o = self.sc.transform(x) if self.scale else x
            self.test = self.test[1:] + [o[0]]
            p = self.pca.transform(np.array(o).reshape(1, -1))[0]
            if self.metric == "intersection":
                p = np.array([min(max(p[i], self.lo[i]), self.hi[i]) for i in range(self.num_pcs)])
            self.tp = np.vstack([self.tp[1:], p])
            if (self.total - 1) % self.step_every == 0 and self.total - 1 != 0:
                sc = []
                unsure = 0
                for i in range(self.num_pcs):
                    if self.metric == "intersection":
                        dt = hist_density(self.tp[:, i], self.bins, self.lo[i], self.hi[i])
                        unsure += self.uref[i] + near_interior_edge(self.tp[:, i], self.bins, self.lo[i], self.hi[i])
                        sc.append(1 - np.sum(np.minimum(self.dref[i], dt)))
                    else:
                        sc.append(jensenshannon(self.dref[i], kde_density(self.tp[:, i])))
                score = float(max(sc))
                if not math.isfinite(score):
                    raise Degenerate("non-finite score")
                self.model_score = score
                if hint is not None and not math.isfinite(hint) and score * score <= 1e-13:
                    # scipy's jensenshannon returns nan when rounding makes the (zero) divergence negative
                    raise Degenerate("non-finite score at zero divergence")
                if hint is not None and math.isfinite(hint):
                    # the implementation's own number is fed to the inner test whenever it agrees with the
                    # model's within the stated tolerance (1e-9; for the Jensen-Shannon *distance*, a square
                    # root, 1e-13 on the squares; plus 1/W per point sitting on an interior bin edge)
                    ok = abs(hint - score) <= 1e-9 + unsure / self.W
                    if self.metric != "intersection":
                        ok = ok or abs(hint * hint - score * score) <= 1e-13
                    if ok:
                        self.edge_knife = unsure > 0 and abs(hint - score) > 1e-9
                        score = float(hint)
                self.scores.append(score)
                self.scores_in_epoch += 1
                out = self.ph.step(score, ch)
                if out["state"] is not None:
                    self.building = True
                    self.state = "drift"
        return {"state": self.state, "n": self.n, "num_pcs": self.num_pcs, "nscores": len(self.scores), "score": score}
