"""Reference model of ADWIN's exponential histogram kept on raw values (C03).

Inputs are multiples of 1/SCALE, stored as integers, so all window sums are
exact.  Buckets are tuples of the raw (scaled) inputs they summarise; row i holds
buckets of 2^i inputs; a row holding max_buckets+1 buckets merges its two oldest
into the next row.
"""
import math
from fractions import Fraction

SCALE = 16


class AdwinModel:
    def __init__(self, delta, max_buckets, new_sample_thresh, window_size_thresh, subwindow_size_thresh, conservative_bound):
        self.delta = delta
        self.M = max_buckets
        self.nst = new_sample_thresh
        self.wst = window_size_thresh
        self.sst = subwindow_size_thresh
        self.cons = conservative_bound
        self.rows = [[]]  # rows[i] = list of buckets (old -> new), bucket = tuple of scaled ints
        self.t = 0
        self.W = 0
        self.sum = 0  # scaled
        self.sq = 0  # scaled^2
        self.maxabs = 0.0
        self.compressed_rows = 1

    def clone(self):
        c = AdwinModel.__new__(AdwinModel)
        c.__dict__.update(self.__dict__)
        c.rows = [list(r) for r in self.rows]
        return c

    # -- window statistics (exact) -------------------------------------------
    def mean(self):
        return Fraction(self.sum, self.W * SCALE) if self.W else Fraction(0)

    def variance(self):
        if not self.W:
            return Fraction(0)
        return (Fraction(self.sq, self.W) - Fraction(self.sum, self.W) ** 2) / (SCALE * SCALE)

    def var_tol(self):
        return 1e-9 * (1.0 + self.maxabs * self.maxabs)

    def mean_tol(self):
        return 1e-9 * (1.0 + self.maxabs)

    def buckets_old_to_new(self):
        out = []
        for i in range(len(self.rows) - 1, -1, -1):
            out.extend(self.rows[i])
        return out

    # -- operations ----------------------------------------------------------
    def _add(self, k):
        self.t += 1
        self.W += 1
        self.sum += k
        self.sq += k * k
        self.maxabs = max(self.maxabs, abs(k) / SCALE)
        self.rows[0].append((k,))
        i = 0
        while i < len(self.rows) and len(self.rows[i]) == self.M + 1:
            if i + 1 == len(self.rows):
                self.rows.append([])
            a = self.rows[i].pop(0)
            b = self.rows[i].pop(0)
            self.rows[i + 1].append(a + b)
            i += 1
        self.compressed_rows = max(self.compressed_rows, len(self.rows))

    def _drop_oldest(self):
        i = len(self.rows) - 1
        while not self.rows[i]:
            i -= 1
        b = self.rows[i].pop(0)
        self.W -= len(b)
        self.sum -= sum(b)
        self.sq -= sum(v * v for v in b)
        while len(self.rows) > 1 and not self.rows[-1]:
            self.rows.pop()

    def _eps(self, n0, n1, W, var):
        m = 1.0 / (n0 - self.sst + 1) + 1.0 / (n1 - self.sst + 1)
        if not self.cons:
            dp = math.log(2 * math.log(W) / self.delta)
            return math.sqrt(2 * m * var * dp) + (2.0 / 3.0) * m * dp
        dp = math.log(4 * math.log(W) / self.delta)
        return math.sqrt(0.5 * m * dp)

    def step(self, k, ch):
        """k: scaled integer input.  Returns dict(drift, recs, drops, rows_at_drop)."""
        self._add(k)
        drops = 0
        rows_at_drop = 0
        if self.t % self.nst == 0 and self.W > self.wst:
            again = True
            while again:
                again = False
                bs = self.buckets_old_to_new()
                W = self.W
                if W < 2:
                    break
                var = float(self.variance())
                dv = self.var_tol()
                n0 = 0
                s0 = 0
                for b in bs[:-1]:
                    n0 += len(b)
                    s0 += sum(b)
                    n1 = W - n0
                    if n0 >= self.sst and n1 >= self.sst:
                        d = abs(float(Fraction(s0, n0) - Fraction(self.sum - s0, n1))) / SCALE
                        e_hi = self._eps(n0, n1, W, var + dv)
                        e_lo = self._eps(n0, n1, W, max(0.0, var - dv))
                        mid = 0.5 * (e_hi + e_lo)
                        tol = 0.5 * (e_hi - e_lo) + 1e-9 * (1.0 + mid)
                        if ch.gt(d, mid, tol):
                            rows_at_drop = max(rows_at_drop, len(self.rows))
                            self._drop_oldest()
                            drops += 1
                            again = True
                            break
        recs = (self.t - self.W, self.t - 1) if drops else None
        return {"drift": drops > 0, "recs": recs, "drops": drops, "rows_at_drop": rows_at_drop, "W": self.W}
