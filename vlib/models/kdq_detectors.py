"""Reference models of KdqTreeBatch and KdqTreeStreaming (C09) on top of the
independent tree of vlib.models.kdqtree."""
import numpy as np

from vlib.models import kdqtree as kt

REL = 1e-9


def node_rows(root, ref_data, test_counts_by_leaf):
    """pre-order rows (depth, reference count, test - reference) like to_plotly_dataframe."""
    ls = kt.leaves(root)
    pos = {id(l): i for i, l in enumerate(ls)}

    def tcount(nd):
        if nd.axis is None:
            return int(test_counts_by_leaf[pos[id(nd)]])
        return tcount(nd.l) + tcount(nd.r)

    return [[nd.depth, int(nd.n), tcount(nd) - int(nd.n)] for nd in kt.all_nodes(root)]


class KdqBatchModel:
    def __init__(self, alpha, bootstrap_samples, count_ubound, lbound=2e-10):
        self.alpha, self.B, self.cu, self.lb = alpha, bootstrap_samples, count_ubound, lbound
        self.root = None
        self.state = None
        self.pending = None
        self.ndrift = 0

    def clone(self):
        c = KdqBatchModel.__new__(KdqBatchModel)
        c.__dict__.update(self.__dict__)
        return c

    def set_reference(self, X):
        X = np.asarray(X, dtype=float)
        self.ref = X
        self.root = kt.build(X, self.cu, kt.min_cut_sizes(X, self.lb))
        self.rc = kt.leaf_counts(self.root, X)
        self.crit = kt.critical(self.rc, len(X), self.B, self.alpha)
        self.tc = np.zeros(len(self.rc), dtype=int)
        self.has_test = False
        self.state = None
        self.pending = None

    def step(self, X, ch):
        X = np.asarray(X, dtype=float)
        if self.state == "drift":
            self.set_reference(self.pending)
        if self.root is None:
            self.set_reference(X)
            return {"state": None, "kl": None, "crit": self.crit}
        self.tc = kt.leaf_counts(self.root, X)
        self.has_test = True
        k = kt.kl(kt.dist(self.rc), kt.dist(self.tc))
        if ch.gt(k, self.crit, REL * (1 + abs(k) + abs(self.crit))):
            self.state = "drift"
            self.pending = X
            self.ndrift += 1
        return {"state": self.state, "kl": k, "crit": self.crit}

    def rows(self):
        tc = self.tc if self.has_test else np.zeros(len(self.rc), dtype=int)
        return node_rows(self.root, self.ref, tc)


class KdqStreamModel:
    def __init__(self, window_size, persistence, alpha, bootstrap_samples, count_ubound, lbound=2e-10):
        self.w, self.pers = window_size, persistence
        self.alpha, self.B, self.cu, self.lb = alpha, bootstrap_samples, count_ubound, lbound
        self.state = None
        self.ndrift = 0
        self.interrupted_resumed = False
        self._new_epoch()

    def _new_epoch(self):
        self.buf = []
        self.root = None
        self.counter = 0
        self.tn = 0
        self.state = None
        self.seen_exceed = False
        self.seen_gap_after_exceed = False

    def clone(self):
        c = KdqStreamModel.__new__(KdqStreamModel)
        c.__dict__.update(self.__dict__)
        c.buf = list(self.buf)
        if self.root is not None:
            c.tc = self.tc.copy()
        return c

    def step(self, x, ch):
        x = np.asarray(x, dtype=float)
        if self.state == "drift":
            self._new_epoch()
        k = None
        if self.root is None:
            self.buf.append(x)
            if len(self.buf) == self.w:
                R = np.array(self.buf)
                self.ref = R
                self.root = kt.build(R, self.cu, kt.min_cut_sizes(R, self.lb))
                self.rc = kt.leaf_counts(self.root, R)
                self.crit = kt.critical(self.rc, self.w, self.B, self.alpha)
                self.tc = np.zeros(len(self.rc), dtype=int)
                self.tn = 0
        else:
            self.tc = self.tc + kt.leaf_counts(self.root, x.reshape(1, -1))
            self.tn += 1
            if self.tn >= self.w:
                k = kt.kl(kt.dist(self.rc), kt.dist(self.tc))
                if ch.gt(k, self.crit, REL * (1 + abs(k) + abs(self.crit))):
                    self.counter += 1  # consecutive exceedances
                    if self.seen_gap_after_exceed:
                        self.interrupted_resumed = True
                    self.seen_exceed = True
                    if self.counter > self.pers * self.w:
                        self.state = "drift"
                        self.ndrift += 1
                else:
                    self.counter = 0
                    if self.seen_exceed:
                        self.seen_gap_after_exceed = True
        return {"state": self.state, "kl": k, "crit": getattr(self, "crit", None), "counter": self.counter}

    def rows(self):
        return node_rows(self.root, self.ref, self.tc)
