"""MD3 protocol: deterministic stub classifier, user margin function and the
reference protocol model (C19)."""
import numpy as np
from sklearn.base import BaseEstimator, ClassifierMixin

LOG = {}
FEATURES = ["x", "m", "id"]
TARGET = "y"


class Stub(BaseEstimator, ClassifierMixin):
    """Cloneable scikit-learn compatible classifier: predicts x > thr; fit/predict record the row ids they were given."""

    def __init__(self, thr=0.0, log_id=0):
        self.thr = thr
        self.log_id = log_id

    @staticmethod
    def _col(X, name, pos):
        # data frames are read by column name (the order of feature columns is the caller's business), arrays by position
        if hasattr(X, "columns"):
            return np.asarray(X[name])
        return np.asarray(X)[:, pos]

    def fit(self, X, y):
        LOG.setdefault(self.log_id, []).append(("fit", tuple(int(v) for v in self._col(X, "id", 2))))
        self.classes_ = np.array([0, 1])
        return self

    def predict(self, X):
        LOG.setdefault(self.log_id, []).append(("predict", tuple(int(v) for v in self._col(X, "id", 2))))
        return (self._col(X, "x", 0) > self.thr).astype(int)


def margin(det, sample, clf):
    """user-supplied margin inclusion signal: pure function of feature "m" (located through the detector's
    current reference columns, which is the order in which the harness presents samples)"""
    cols = list(det.reference_batch_features.columns)
    return 1 if abs(sample[cols.index("m")]) <= 1 else 0


def fold_stats(rows, folds):
    """rows: dict id -> (x, m, y); folds: list of id tuples. -> (md, md_std, acc, acc_std)"""
    mds, accs = [], []
    for ids in folds:
        sig = [1 if abs(rows[i][1]) <= 1 else 0 for i in ids]
        mds.append(sum(sig) / len(sig))
        accs.append(sum(1 for i in ids if int(rows[i][0] > 0.0) == rows[i][2]) / len(ids))
    return float(np.mean(mds)), float(np.std(mds)), float(np.mean(accs)), float(np.std(accs))


def folds_valid(folds, ids, k):
    allids = sorted(i for f in folds for i in f)
    return allids == sorted(ids) and len(folds) == k and max(map(len, folds)) - min(map(len, folds)) <= 1


class MD3Model:
    def __init__(self, sensitivity, k, L):
        self.sens, self.k, self.L = sensitivity, k, L
        self.state = None
        self.waiting = False
        self.labels = []
        self.total = 0
        self.since = 0
        self.confirmations = 0
        self.drifts = 0

    def clone(self):
        c = MD3Model.__new__(MD3Model)
        c.__dict__.update(self.__dict__)
        c.labels = list(self.labels)
        return c

    def set_reference(self, rows, folds):
        """rows: list of (id, x, m, y)"""
        table = {r[0]: (r[1], r[2], r[3]) for r in rows}
        self.N = len(rows)
        self.md, self.md_std, self.acc, self.acc_std = fold_stats(table, folds)
        self.lam = (self.N - 1) / self.N
        self.cur = self.md
        if self.L is None:
            self.L = self.N

    def update(self, m_value, nrows=1):
        """-> 'refused' | None"""
        if self.waiting or nrows != 1:
            return "refused"
        if self.state == "drift":
            self.since = 0
            self.state = None
            self.cur = self.md
        self.total += 1
        self.since += 1
        sig = 1 if abs(m_value) <= 1 else 0
        self.cur = self.lam * self.cur + (1 - self.lam) * sig
        self.margin_gap = abs(self.cur - self.md) - self.sens * self.md_std
        if self.margin_gap > 0:
            self.state = "warning"
            self.waiting = True
        return None

    def label(self, row, columns_ok=True, nrows=1):
        """row = (id, x, m, y).  -> 'refused' | 'collected' | 'confirm' (caller must then feed folds)"""
        if not self.waiting or nrows != 1 or not columns_ok:
            return "refused"
        self.state = None
        self.labels.append(row)
        if len(self.labels) == self.L:
            a = sum(1 for r in self.labels if int(r[1] > 0.0) == r[3]) / len(self.labels)
            self.acc_gap = (self.acc - a) - self.sens * self.acc_std
            if self.acc_gap > 0:
                self.state = "drift"
                self.drifts += 1
            self.confirmations += 1
            return "confirm"
        return "collected"

    def finish_confirm(self, folds):
        rows = self.labels
        self.labels = []
        self.waiting = False
        self.set_reference(rows, folds)
