"""Independent kdq-tree (C08/C09): own build, own routing, corrected
distributions, KL divergence and the bootstrap critical value."""
import numpy as np


class Node:
    __slots__ = ("n", "axis", "mid", "l", "r", "depth")

    def __init__(self):
        self.axis = None
        self.mid = None
        self.l = None
        self.r = None


def min_cut_sizes(data, lbound):
    return [int(lbound * (data[:, a].max() - data[:, a].min())) for a in range(data.shape[1])]


def build(data, cu, mincut, depth=0):
    n, m = data.shape
    nd = Node()
    nd.n = n
    nd.depth = depth
    ax = depth % m
    lo = data[:, ax].min()
    hi = data[:, ax].max()
    mid = lo + (hi - lo) / 2
    if n <= cu or np.unique(data).size <= cu or (mid - lo) <= mincut[ax]:
        return nd
    nd.axis = ax
    nd.mid = mid
    nd.l = build(data[data[:, ax] <= mid], cu, mincut, depth + 1)
    nd.r = build(data[data[:, ax] > mid], cu, mincut, depth + 1)
    return nd


def leaves(nd):
    if nd.axis is None:
        return [nd]
    return leaves(nd.l) + leaves(nd.r)


def all_nodes(nd):
    """pre-order: node, left subtree, right subtree"""
    if nd is None:
        return []
    if nd.axis is None:
        return [nd]
    return [nd] + all_nodes(nd.l) + all_nodes(nd.r)


def leaf_counts(root, data):
    ls = leaves(root)
    idx = {id(l): i for i, l in enumerate(ls)}
    c = np.zeros(len(ls), dtype=int)
    for x in data:
        nd = root
        while nd.axis is not None:
            nd = nd.l if x[nd.axis] <= nd.mid else nd.r
        c[idx[id(nd)]] += 1
    return c


def dist(counts):
    c = np.asarray(counts, dtype=float)
    return (c + 0.5) / (c.sum() + len(c) / 2.0)


def kl(p, q):
    p = np.asarray(p, dtype=float)
    q = np.asarray(q, dtype=float)
    return float(np.sum(p * np.log(p / q)))


def critical(ref_counts, n, n_boot, alpha):
    """(1-alpha) quantile (nearest rank) of the KL divergence between the two
    halves of 2n leaves drawn from the corrected reference distribution; draws
    are issued through numpy in the documented order (one draw of 2n per replicate)."""
    p = dist(ref_counts)
    k = len(p)
    ds = []
    for _ in range(n_boot):
        s = np.random.choice(list(range(k)), size=2 * n, p=p)
        h1 = np.bincount(s[:n], minlength=k)
        h2 = np.bincount(s[n:], minlength=k)
        ds.append(kl(dist(h1), dist(h2)))
    return float(np.quantile(ds, 1 - alpha, method="nearest"))
