"""Runner: tiers, seeds, sharding over worker processes, evidence, replay, exit codes.

A property module (vlib/props/cXX.py) exposes ``PROPERTY`` = dict(
    id, title, level, rule, assumptions, subchecks=[SubCheck, ...]).

Every sub-check has the shape ``check(case, ctx)``: ``case`` is a JSON-able value,
the function raises ``Violation`` when the property is broken on that case and
otherwise records labels on ``ctx``.  Hypothesis (or an explicit enumerator)
only *produces* cases, so a failing case can be replayed without Hypothesis.
"""
import collections
import hashlib
import importlib
import json
import os
import sys
import time
import traceback

ROOT = os.path.dirname(os.path.dirname(os.path.abspath(__file__)))
MAX_SAMPLES = 3


# ----------------------------------------------------------------------------
# exceptions / context
# ----------------------------------------------------------------------------
class Violation(Exception):
    """The property does not hold on this case."""

    def __init__(self, kind, detail="", **sig):
        super().__init__(f"{kind}: {detail}")
        self.kind = kind
        self.detail = str(detail)
        self.case = sig.pop("case", None)  # optional smaller replacement case
        self.sig = dict(sig)
        self.sig["kind"] = kind

    def to_json(self):
        d = {"kind": self.kind, "detail": self.detail[:2000], "sig": self.sig}
        if self.case is not None:
            d["case"] = self.case
        return d


class HarnessError(Exception):
    """Something is wrong with the checking machinery itself (exit 2)."""


class Ctx:
    """Per-case context handed to check functions."""

    def __init__(self, exclude_known=True):
        self.labels = set()
        self.excluded = collections.Counter()
        self.exclude_known = exclude_known
        self.notes = {}
        self.evals = None  # bulk cases: number of elementary evaluations / non-trivial ones
        self.nt_evals = None

    def label(self, *labels):
        for l in labels:
            if l is not None:
                self.labels.add(str(l))

    def exclude(self, finding_id):
        """Record that a case (or part of it) lies in the region of a listed
        known finding and was therefore not judged."""
        self.excluded[finding_id] += 1
        self.labels.add("excluded-known:" + finding_id)


class sut:
    """``with sut(detector=..., op=...):`` wraps calls into the code under test:
    any exception other than Violation escaping the block is an
    ``unexpected-exception`` violation bucketed by type and innermost menelaus
    frame.  ``allow`` lists exception types that are legitimate outputs and are
    re-raised unchanged for the caller to handle."""

    def __init__(self, allow=(), **sig):
        self.allow = tuple(allow)
        self.sig = sig

    def __enter__(self):
        return self

    def __exit__(self, et, ev, tb):
        if et is None:
            return False
        if issubclass(et, (Violation, HarnessError, KeyboardInterrupt, MemoryError)):
            return False
        if self.allow and issubclass(et, self.allow):
            return False
        if not issubclass(et, Exception):
            return False
        frame = "?"
        for fs in traceback.extract_tb(tb):
            fn = fs.filename.replace("\\", "/")
            if "/menelaus/" in fn:
                frame = fn.split("/menelaus/")[-1] + ":" + fs.name
        raise Violation(
            "unexpected-exception",
            f"{et.__name__}: {ev} @ {frame}",
            exc=et.__name__,
            frame=frame,
            **self.sig,
        ) from ev


def run_check_fn(sub, case, ctx):
    """``sub.check(case, ctx)``; an exception that escapes the check and was raised *inside the code under test*
    (innermost traceback frame in the menelaus package, e.g. a public property read outside a ``sut`` block) is the
    code's failure, not the harness's, and is reported like any other unexpected exception."""
    try:
        return sub.check(case, ctx)
    except (Violation, HarnessError):
        raise
    except Exception as ev:
        tb = traceback.extract_tb(ev.__traceback__)
        fn = tb[-1].filename.replace("\\", "/") if tb else ""
        if "/menelaus/" not in fn or "/vlib/" in fn:
            raise
        frame = fn.split("/menelaus/")[-1] + ":" + tb[-1].name
        raise Violation("unexpected-exception", f"{type(ev).__name__}: {ev} @ {frame}", exc=type(ev).__name__, frame=frame) from ev


class SubCheck:
    def __init__(
        self,
        name,
        check,
        strategy=None,
        enumerate=None,
        nontrivial=None,
        quick=200,
        thorough=4000,
        shards_quick=4,
        shards_thorough=16,
        exhaustive=False,
        weight=1.0,
        shrink_quick=120,
        shrink_thorough=1500,
        describe=None,
    ):
        self.name = name
        self.check = check
        self.strategy = strategy  # callable(tier) -> hypothesis strategy
        self.enumerate = enumerate  # callable(tier, shard, nshards) -> iterable of cases
        self.nontrivial = nontrivial or (lambda labels: True)
        self.quick = quick
        self.thorough = thorough
        self.shards_quick = shards_quick
        self.shards_thorough = shards_thorough
        self.exhaustive = exhaustive
        self.shrink_quick = shrink_quick
        self.shrink_thorough = shrink_thorough
        self.describe = describe


# ----------------------------------------------------------------------------
# helpers
# ----------------------------------------------------------------------------
def jnorm(case):
    return json.loads(json.dumps(case))


def digest(case):
    return hashlib.sha1(json.dumps(case, sort_keys=True).encode()).hexdigest()[:16]


def derive_seed(seed, *parts):
    h = hashlib.sha256(("|".join([str(seed)] + [str(p) for p in parts])).encode()).hexdigest()
    return int(h[:12], 16)


def load_property(pid):
    mod = importlib.import_module("vlib.props." + pid.lower())
    return mod.PROPERTY


def load_known():
    p = os.path.join(ROOT, "known_findings.json")
    if not os.path.exists(p):
        return {"open": [], "fixed": []}
    with open(p) as f:
        return json.load(f)


def sig_matches(entry_sig, sig):
    return all(sig.get(k) == v for k, v in entry_sig.items())


def known_match(pid, sig, known=None):
    known = known or load_known()
    for e in known.get("open", []):
        if e.get("property") == pid and sig_matches(e.get("signature", {}), sig):
            return e
    return None


# ----------------------------------------------------------------------------
# one task = (sub-check, shard) in a worker process
# ----------------------------------------------------------------------------
def _empty_result(sub_name, shard):
    return {
        "sub": sub_name,
        "shard": shard,
        "evaluations": 0,
        "nontrivial": [],
        "nontrivial_count_extra": 0,
        "labels": {},
        "samples": [],
        "excluded": {},
        "failure": None,
        "error": None,
        "exhaustive": False,
        "wall_s": 0.0,
    }


def _record(res, sub, case, ctx, seen_nt, keep_digests=True):
    if ctx.evals is not None:
        res["evaluations"] += ctx.evals
        res["nontrivial_count_extra"] += ctx.nt_evals or 0
        for l in ctx.labels:
            res["labels"][l] = res["labels"].get(l, 0) + 1
        for k, v in ctx.notes.get("label_counts", {}).items():
            res["labels"][k] = res["labels"].get(k, 0) + v
        if len(res["samples"]) < MAX_SAMPLES:
            res["samples"].append({"case": sub.describe(case) if sub.describe else case, "labels": sorted(ctx.labels)})
        return
    res["evaluations"] += 1
    for l in ctx.labels:
        res["labels"][l] = res["labels"].get(l, 0) + 1
    for k, v in ctx.excluded.items():
        res["excluded"][k] = res["excluded"].get(k, 0) + v
    if sub.nontrivial(ctx.labels):
        if keep_digests:
            seen_nt.add(digest(case))
        else:
            res["nontrivial_count_extra"] += 1
        if len(res["samples"]) < MAX_SAMPLES:
            s = sub.describe(case) if sub.describe else case
            txt = json.dumps(s)
            if len(txt) > 3000:
                s = {"truncated_case_json": txt[:3000] + "..."}
            res["samples"].append({"case": s, "labels": sorted(ctx.labels)})


def run_task(task):
    pid, sub_name, tier, seed, shard, nshards = task
    t0 = time.time()
    res = _empty_result(sub_name, shard)
    try:
        prop = load_property(pid)
        sub = next(s for s in prop["subchecks"] if s.name == sub_name)
        if sub.enumerate is not None:
            _run_enum(res, sub, tier, seed, shard, nshards)
        else:
            _run_hyp(res, pid, sub, tier, seed, shard, nshards)
    except BaseException:  # harness problem
        res["error"] = traceback.format_exc()
    res["wall_s"] = time.time() - t0
    return res


def _run_enum(res, sub, tier, seed, shard, nshards):
    seen_nt = set()
    for case in sub.enumerate(tier, shard, nshards):
        ctx = Ctx()
        try:
            run_check_fn(sub, case, ctx)
        except Violation as v:
            vj = v.to_json()
            res["failure"] = {"case": vj.pop("case", None) or case, "violation": vj}
            break
        _record(res, sub, case, ctx, seen_nt, keep_digests=False)
    res["exhaustive"] = bool(sub.exhaustive) and res["failure"] is None


def _run_hyp(res, pid, sub, tier, seed, shard, nshards):
    import hypothesis
    from hypothesis import HealthCheck, Phase, given, settings

    total = sub.quick if tier == "quick" else sub.thorough
    n = total // nshards + (1 if shard < total % nshards else 0)
    if n <= 0:
        return
    budget = sub.shrink_quick if tier == "quick" else sub.shrink_thorough
    st = {"best": None, "fails": 0, "stop": False}
    seen_nt = set()

    @hypothesis.seed(derive_seed(seed, pid, sub.name, shard))
    @settings(
        max_examples=n,
        database=None,
        deadline=None,
        derandomize=False,
        report_multiple_bugs=False,
        suppress_health_check=list(HealthCheck),
        phases=[Phase.generate, Phase.shrink],
        verbosity=hypothesis.Verbosity.quiet,
    )
    @given(sub.strategy(tier))
    def t(case):
        if st["stop"]:
            return
        case = jnorm(case)
        ctx = Ctx()
        try:
            run_check_fn(sub, case, ctx)
        except Violation as v:
            st["fails"] += 1
            vj = v.to_json()
            st["best"] = (vj.pop("case", None) or case, vj)
            if st.get("first") is None:
                st["first"] = (case, dict(vj))  # the generated (unshrunk, untruncated) case
            if st["fails"] > budget:
                st["stop"] = True
            raise
        if st["best"] is None:
            _record(res, sub, case, ctx, seen_nt)

    try:
        t()
    except BaseException:
        if st["best"] is None:
            raise
    if st["best"] is not None:
        case, vio = st["best"]
        res["failure"] = {"case": case, "violation": vio}
        if st.get("first") is not None:
            res["failure"]["first_case"] = st["first"][0]
    res["nontrivial"] = sorted(seen_nt)


# ----------------------------------------------------------------------------
# replaying a single case (no Hypothesis involved)
# ----------------------------------------------------------------------------
def replay_case(prop, sub_name, case, exclude_known=False):
    sub = next(s for s in prop["subchecks"] if s.name == sub_name)
    ctx = Ctx(exclude_known=exclude_known)
    try:
        run_check_fn(sub, jnorm(case), ctx)
    except Violation as v:
        vj = v.to_json()
        vj.pop("case", None)
        return vj, ctx
    return None, ctx


# ----------------------------------------------------------------------------
# main driver
# ----------------------------------------------------------------------------
def main(argv=None):
    import argparse

    ap = argparse.ArgumentParser()
    ap.add_argument("property")
    ap.add_argument("--tier", default=os.environ.get("VERIF_TIER", "quick"), choices=["quick", "thorough"])
    ap.add_argument("--replay", default=None)
    ap.add_argument("--only", default=None, help="comma separated sub-check names")
    ap.add_argument("--scale", type=float, default=float(os.environ.get("VERIF_SCALE", "1")))
    ap.add_argument("--jobs", type=int, default=int(os.environ.get("VERIF_JOBS", "16")))
    ap.add_argument("--no-evidence", action="store_true")
    ap.add_argument("--json", action="store_true", help="with --replay: print the violation as one JSON line")
    args = ap.parse_args(argv)
    pid = args.property.upper()
    raw_seed = (os.environ.get("VERIF_SEED", "1") or "1").strip()
    try:
        seed = int(raw_seed)
    except ValueError:  # any other string is still a reproducible seed
        seed = int(hashlib.sha256(raw_seed.encode()).hexdigest()[:12], 16)
    t0 = time.time()

    try:
        prop = load_property(pid)
    except Exception:
        traceback.print_exc()
        print(f"HARNESS-ERROR property={pid} cannot load property module")
        return 2

    if args.replay:
        return _do_replay(pid, prop, args.replay, as_json=args.json)

    subs = prop["subchecks"]
    if args.only:
        names = set(args.only.split(","))
        subs = [s for s in subs if s.name in names]
    if args.scale != 1:
        for s in subs:
            s.quick = max(1, int(s.quick * args.scale))
            s.thorough = max(1, int(s.thorough * args.scale))

    known = load_known()
    violations = []  # (sub, case, vio)
    known_lines = []
    harness_errors = []

    # phase 0: committed regression cases (fixed defects and earlier failures)
    reg_dir = os.path.join(ROOT, "regressions", pid)
    n_reg = 0
    open_regs = {e.get("regression") for e in known.get("open", []) if e.get("property") == pid}
    if os.path.isdir(reg_dir):
        for fn in sorted(os.listdir(reg_dir)):
            if not fn.endswith(".json"):
                continue
            rel = os.path.join("regressions", pid, fn)
            if rel in open_regs:
                continue
            with open(os.path.join(reg_dir, fn)) as f:
                doc = json.load(f)
            if args.only and doc["sub"] not in {s.name for s in subs}:
                continue
            try:
                vio, _ = replay_case(prop, doc["sub"], doc["case"], exclude_known=True)
            except Exception:
                harness_errors.append(f"regression {rel}:\n{traceback.format_exc()}")
                continue
            n_reg += 1
            if vio is not None:
                violations.append((doc["sub"], doc["case"], vio, os.path.join(ROOT, rel)))

    # phase 1: probe open known findings
    for e in known.get("open", []):
        if e.get("property") != pid:
            continue
        with open(os.path.join(ROOT, e["regression"])) as f:
            doc = json.load(f)
        try:
            vio, _ = replay_case(prop, doc["sub"], doc["case"], exclude_known=False)
        except Exception:
            harness_errors.append(f"known finding {e['id']}:\n{traceback.format_exc()}")
            continue
        if vio is not None:
            if sig_matches(e.get("signature", {}), vio["sig"]):
                known_lines.append(f"KNOWN-FINDING: property={pid} {e['id']}: {e['what']}")
            else:
                violations.append((doc["sub"], doc["case"], vio, None))

    # phase 2: generated search
    tasks = []
    for s in subs:
        ns = s.shards_quick if args.tier == "quick" else s.shards_thorough
        ns = max(1, min(ns, args.jobs if s.enumerate is None else ns))
        for sh in range(ns):
            tasks.append((pid, s.name, args.tier, seed, sh, ns))
    results = []
    if tasks:
        if args.jobs <= 1 or len(tasks) == 1:
            results = [run_task(t) for t in tasks]
        else:
            import multiprocessing as mp

            ctx = mp.get_context("spawn")
            # a change to the code under test may make a call loop forever: every task has a (generous) wall-clock
            # limit after which the run is declared inconclusive (harness error, exit 2) - never a violation
            limit = float(os.environ.get("VERIF_TASK_TIMEOUT", "1500" if args.tier == "quick" else "14400"))
            pool = ctx.Pool(min(args.jobs, len(tasks)))
            try:
                pending = [(t, pool.apply_async(run_task, (t,))) for t in tasks]
                deadline = time.time() + limit
                for t, ar in pending:
                    try:
                        results.append(ar.get(timeout=max(1.0, deadline - time.time())))
                    except mp.TimeoutError:
                        harness_errors.append(f"{t[1]}[{t[4]}]: no result within {limit:.0f}s (inconclusive)")
                pool.terminate()
            finally:
                pool.join()
    results.sort(key=lambda r: (r["sub"], r["shard"]))

    for r in results:
        if r["error"]:
            harness_errors.append(f"{r['sub']}[{r['shard']}]:\n{r['error']}")
        if r["failure"]:
            case, vio = r["failure"]["case"], r["failure"]["violation"]
            # confirm outside Hypothesis
            try:
                vio2, _ = replay_case(prop, r["sub"], case, exclude_known=True)
            except Exception:
                harness_errors.append(f"replay of failure in {r['sub']}:\n{traceback.format_exc()}")
                continue
            if vio2 is None:
                # The failure depended on state left in the worker process by earlier cases (module globals,
                # class attributes, caches of the code under test).  The replay command runs in a fresh
                # interpreter, so that is where the case must fail to be a reportable violation.
                vio2 = _replay_in_fresh_process(pid, r["sub"], case)
                if vio2 is None and r["failure"].get("first_case") is not None:
                    # shrinking inside a polluted process can produce a case that is not self-contained:
                    # fall back to the case as it was generated
                    case = r["failure"]["first_case"]
                    vio2 = _replay_in_fresh_process(pid, r["sub"], case)
                if vio2 is None:
                    harness_errors.append(f"{r['sub']}: failure did not reproduce on replay (neither in-process nor in a fresh process): {vio}")
                    continue
            e = known_match(pid, vio2["sig"], known)
            if e is not None:
                line = f"KNOWN-FINDING: property={pid} {e['id']}: {e['what']}"
                if line not in known_lines:
                    known_lines.append(line)
                continue
            violations.append((r["sub"], case, vio2, None))

    # dedupe violations by (sub, sig)
    uniq = {}
    for sub_name, case, vio, path in violations:
        key = (sub_name, json.dumps(vio["sig"], sort_keys=True))
        if key not in uniq or len(json.dumps(case)) < len(json.dumps(uniq[key][1])):
            uniq[key] = (sub_name, case, vio, path)
    violations = list(uniq.values())

    # write replays
    out_lines = []
    rep_dir = os.environ.get("VERIF_REPLAY_DIR") or os.path.join(ROOT, "replays")
    for sub_name, case, vio, path in violations:
        if path is None:
            os.makedirs(rep_dir, exist_ok=True)
            path = os.path.join(rep_dir, f"{pid}-{sub_name}-{digest(case)}.json")
            with open(path, "w") as f:
                json.dump({"property": pid, "sub": sub_name, "violation": vio, "case": case}, f, indent=1)
        out_lines.append((path, sub_name, vio))

    wall = time.time() - t0
    if not args.no_evidence:
        _write_evidence(pid, prop, args.tier, seed, subs, results, n_reg, len(violations), known_lines, wall)

    for l in known_lines:
        print(l)
    for s in subs:
        rs = [r for r in results if r["sub"] == s.name]
        ev = sum(r["evaluations"] for r in rs)
        nt = len({d for r in rs for d in r["nontrivial"]}) + sum(r["nontrivial_count_extra"] for r in rs)
        print(f"[{pid}] {s.name}: evaluations={ev} nontrivial={nt} wall={max([r['wall_s'] for r in rs] or [0]):.1f}s")
    for h in harness_errors:
        print("HARNESS-ERROR", h, file=sys.stderr)
    if out_lines:
        # confirmed, replayable violations take precedence over inconclusive parts of the same run
        for path, sub_name, vio in out_lines:
            print(f"[{pid}] {sub_name}: {vio['kind']}: {vio['detail'][:300]}")
            print(f"VIOLATION property={pid} replay={path}")
        if harness_errors:
            print(f"[{pid}] note: {len(harness_errors)} further problem(s) were inconclusive (see stderr)")
        return 1
    if harness_errors:
        print(f"HARNESS-ERROR property={pid} ({len(harness_errors)} problem(s), see stderr)")
        return 2
    print(f"[{pid}] OK tier={args.tier} seed={seed} regressions={n_reg} wall={wall:.1f}s")
    return 0


def _replay_in_fresh_process(pid, sub_name, case):
    import subprocess
    import tempfile

    with tempfile.NamedTemporaryFile("w", suffix=".json", delete=False) as f:
        json.dump({"property": pid, "sub": sub_name, "case": case}, f)
        tmp = f.name
    try:
        p = subprocess.run(
            [sys.executable, "-B", os.path.join(ROOT, "run_check.py"), pid, "--replay", tmp, "--json"],
            capture_output=True,
            text=True,
            timeout=1800,
            cwd=ROOT,
        )
        for line in p.stdout.splitlines():
            if line.startswith("REPLAY-JSON "):
                d = json.loads(line[len("REPLAY-JSON ") :])
                if d is not None:
                    d["sig"]["fresh_process_only"] = True
                return d
        return None
    except Exception:
        return None
    finally:
        os.unlink(tmp)


def _do_replay(pid, prop, path, as_json=False):
    with open(path) as f:
        doc = json.load(f)
    vio, ctx = replay_case(prop, doc["sub"], doc["case"], exclude_known=False)
    if as_json:
        print("REPLAY-JSON " + json.dumps(vio))
        return 0 if vio is None else 1
    if vio is None:
        print(f"[{pid}] replay {path}: no violation (labels={sorted(ctx.labels)})")
        return 0
    e = known_match(pid, vio["sig"])
    if e is not None:
        print(f"KNOWN-FINDING: property={pid} {e['id']}: {e['what']}")
        return 0
    print(f"[{pid}] {doc['sub']}: {vio['kind']}: {vio['detail'][:1000]}")
    print(f"VIOLATION property={pid} replay={path}")
    return 1


def _write_evidence(pid, prop, tier, seed, subs, results, n_reg, n_viol, known_lines, wall):
    per_sub = {}
    total_ev = 0
    total_nt = 0
    samples = []
    exhaustive_all = True
    excluded = collections.Counter()
    for s in subs:
        rs = [r for r in results if r["sub"] == s.name]
        ev = sum(r["evaluations"] for r in rs)
        nt = len({d for r in rs for d in r["nontrivial"]}) + sum(r["nontrivial_count_extra"] for r in rs)
        labels = collections.Counter()
        for r in rs:
            labels.update(r["labels"])
            excluded.update(r["excluded"])
        exh = bool(rs) and all(r["exhaustive"] for r in rs)
        exhaustive_all = exhaustive_all and exh
        per_sub[s.name] = {
            "evaluations": ev,
            "distinct_nontrivial": nt,
            "exhaustive": exh,
            "labels": dict(sorted(labels.items())),
            "wall_s": round(max([r["wall_s"] for r in rs] or [0]), 2),
        }
        total_ev += ev
        total_nt += nt
        for r in rs:
            for smp in r["samples"][:1]:
                if sum(1 for x in samples if x["sub"] == s.name) < 2:
                    samples.append({"sub": s.name, **smp})
    doc = {
        "property_id": pid,
        "tier": tier,
        "seed": seed,
        "level": prop.get("level", "exploration"),
        "coverage": {
            "evaluations": total_ev,
            "distinct_nontrivial": total_nt,
            "rule": prop["rule"],
            "samples": samples,
            "exhaustive": bool(subs) and exhaustive_all,
            "per_subcheck": per_sub,
            "regression_cases_replayed": n_reg,
            "excluded_as_known_finding": dict(excluded),
            "known_findings_reported": known_lines,
        },
        "assumptions": prop.get("assumptions", []),
        "wall_s": round(wall, 2),
        "violations": n_viol,
    }
    os.makedirs(os.path.join(ROOT, "evidence"), exist_ok=True)
    with open(os.path.join(ROOT, "evidence", pid + ".json"), "w") as f:
        json.dump(doc, f, indent=1)


class Decoy:
    """A second, independent instance of the class under test that lives during a case and is fed
    other data in between the main instance's calls.  Instances must not influence each other, so
    the main instance is still required to agree with its oracle; a leak through class attributes,
    shared mutable defaults or module globals thereby becomes reproducible inside a single case
    (and hence in its replay file).  Errors of the decoy itself are ignored; call ``step`` *before*
    seeding numpy for the main call."""

    def __init__(self, make, feed, every=3):
        self.feed = feed
        self.every = every
        self.n = 0
        try:
            self.obj = make()
        except Exception:
            self.obj = None

    def step(self, *args):
        self.n += 1
        if self.obj is None or self.n % self.every:
            return
        try:
            self.feed(self.obj, *args)
        except Exception:
            pass
