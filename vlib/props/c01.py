"""C01 - drift state, counters, warm-up and retraining_recs follow the lifecycle contract.

Table-driven invariant monitor over the public trace of every detector."""
import numpy as np
from hypothesis import strategies as st

from vlib import catalogue as cat
from vlib.runner import Decoy, SubCheck, Violation, sut

RECS_DETS = ("ADWIN", "ADWINAccuracy", "DDM", "EDDM", "STEPD", "LinearFourRates")


def _viol(kind, name, msg, case, i):
    c = dict(case)
    c["items"] = case["items"][: i + 1]
    raise Violation(kind, f"{name}({case['params']}) at item {i}: {msg}", detector=name, case=c)


def check_lifecycle(case, ctx):
    name = case["det"]
    spec = cat.SPECS[name]
    p = case["params"]
    items = case["items"]
    base = case["seed_base"]
    with sut(detector=name):
        det = spec.make(p)
    batch = spec.family == "batch"

    def _feed(d, it, k):
        if spec.kind == "y":
            d.update(it[1], it[0])
        elif batch and k == 0:
            d.set_reference(cat.as_input(spec, it))
        else:
            d.update(cat.as_input(spec, it))

    # a second live instance of the same class on other data (the items in reverse order), interleaved
    decoy = Decoy(lambda: spec.make(p), _feed, every=1)
    hdm = name in ("HDDDM", "CDBD")
    db = p.get("detect_batch")
    prev_state = None
    since = 0  # expected since-reset counter
    total = 0  # expected total counter
    ndrift = 0
    nerr_epoch = 0
    epoch_samples = 0  # samples seen since the epoch began (streaming)
    test_batches = 0  # user test batches of the epoch (batch detectors)
    W = 0  # ADWIN window width tracked from public data
    epoch_index = 0
    recs_pending_clear = False
    start = 0
    if batch:
        first_update = bool(case.get("kdq_first_update")) and name == "KdqTreeBatch"
        X0 = cat.as_input(spec, items[0])
        with sut(detector=name):
            np.random.seed(base)
            if first_update:
                det.update(X0)
            else:
                det.set_reference(X0)
        if first_update:
            total, since = 1, 0
        elif hdm and db == 1:
            total, since = 1, 1
        st0 = det.drift_state
        if st0 is not None:
            _viol("alarm-on-reference", name, f"state {st0!r} right after the reference batch", case, 0)
        if getattr(det, spec.total_attr) != total or getattr(det, spec.since_attr) != since:
            _viol(
                "counter",
                name,
                f"after reference: {spec.total_attr}={getattr(det, spec.total_attr)} (expected {total}), {spec.since_attr}={getattr(det, spec.since_attr)} (expected {since})",
                case,
                0,
            )
        start = 1

    for i in range(start, len(items)):
        item = items[i]
        X = cat.as_input(spec, item)
        if name == "NNDVI" and not cat.nndvi_domain_ok(det, X):
            ctx.label("truncated-nndvi-domain")
            break
        if name != "PCACD":
            decoy.step(items[len(items) - 1 - i] if i - start else items[0], i - start)
            if spec.family == "stream":
                decoy.step(items[(len(items) - 1 - i) // 2], 1)  # the decoy runs ahead: its sample indices are larger
        try:
            with sut(detector=name, allow=(ValueError,)):
                np.random.seed(base + i)
                if spec.kind == "y":
                    det.update(item[0], item[1])
                else:
                    det.update(X)
        except ValueError as e:
            msg = str(e)
            if name == "CUSUM" and cat.is_domain_end(name, det, e):
                ctx.label("truncated-sigma-zero")
                break
            if name == "PCACD" and cat.is_domain_end(name, det, e):
                ctx.label("truncated-degenerate-window")
                break
            _viol("unexpected-exception", name, f"ValueError: {msg}", case, i)

        state = det.drift_state
        # ---- 1. state domain
        if state not in (None, "warning", "drift"):
            _viol("bad-state", name, f"drift_state={state!r}", case, i)

        # ---- 2./3. counters
        restart = prev_state == "drift" or (name in ("ADWIN", "ADWINAccuracy") and prev_state is not None)
        if restart:
            epoch_index += 1
            nerr_epoch = 0
            epoch_samples = 0
            test_batches = 0
        if name == "PCACD":
            since = 0 if restart else since + 1
            total += 1
        elif hdm and db == 1:
            if restart:
                since = 2
                total += 2
            else:
                since += 1
                total += 1
        elif name == "KdqTreeBatch":
            since = 1 if restart else since + 1
            total += 1
        else:
            since = 1 if restart else since + 1
            total += 1
        epoch_samples += 1
        test_batches += 1
        if name == "KdqTreeStreaming" and epoch_samples == p["window_size"]:
            since = 0  # the update that completes the reference window restarts the counter
        got_total = getattr(det, spec.total_attr)
        got_since = getattr(det, spec.since_attr)
        if got_total != total:
            _viol("counter", name, f"{spec.total_attr}={got_total}, expected {total}", case, i)
        if got_since != since:
            _viol("counter", name, f"{spec.since_attr}={got_since}, expected {since} (previous state {prev_state!r})", case, i)

        # ---- 4. warm-up
        if spec.kind == "y" and item[0] != item[1]:
            nerr_epoch += 1
        if name in ("ADWIN", "ADWINAccuracy"):
            W += 1
        if state is not None:
            why = None
            if name in ("CUSUM", "PageHinkley", "LinearFourRates") and not since > p["burn_in"]:
                why = f"epoch sample {since} <= burn_in {p['burn_in']}"
            if name == "LinearFourRates" and since % p["subsample"] != 0:
                why = f"epoch sample {since} is not a multiple of subsample {p['subsample']}"
            if name == "DDM" and since < p["n_threshold"]:
                why = f"epoch sample {since} < n_threshold {p['n_threshold']}"
            if name == "EDDM" and nerr_epoch < p["n_threshold"]:
                why = f"{nerr_epoch} errors in the epoch < n_threshold {p['n_threshold']}"
            if name == "STEPD" and since < 2 * p["window_size"]:
                why = f"epoch sample {since} < 2*window_size"
            if name == "KdqTreeStreaming" and epoch_samples < 2 * p["window_size"]:
                why = f"epoch sample {epoch_samples} < 2*window_size {2 * p['window_size']}"
            if hdm and test_batches < db:
                why = f"test batch {test_batches} of the epoch < detect_batch {db}"
            if name == "PCACD":
                w = p["window_size"]
                step = min(100, round(p["sample_period"] * w))
                need = 2 * w + 1 if epoch_index == 0 else w + 1
                if since < need:
                    why = f"epoch sample {since} < {need} (windows not full)"
                elif (total - 1) % step != 0:
                    why = f"sample {total} is not on the check schedule (step {step})"
            if name in ("ADWIN", "ADWINAccuracy"):
                if state != "drift":
                    why = f"ADWIN reported {state!r}"
                elif total % p["new_sample_thresh"] != 0:
                    why = f"sample {total} is not on the check schedule (every {p['new_sample_thresh']})"
                elif not W > p["window_size_thresh"]:
                    why = f"window {W} <= window_size_thresh {p['window_size_thresh']}"
            if why:
                _viol("early-alarm", name, f"state {state!r} but {why}", case, i)

        # ---- 5. retraining_recs
        if name in RECS_DETS:
            r = cat.norm_recs(det.retraining_recs)
            if state == "drift":
                if r[0] is None or r[1] is None or not (r[0] <= r[1] == total - 1) or r[0] < 0:
                    _viol("recs-at-drift", name, f"retraining_recs={r} at drift on sample index {total - 1}", case, i)
            if recs_pending_clear and state is None and r != [None, None]:
                _viol("recs-not-cleared", name, f"retraining_recs={r} on the update after a drift", case, i)
            recs_pending_clear = state == "drift"
            if name in ("ADWIN", "ADWINAccuracy") and state == "drift":
                W = r[1] - r[0] + 1

        if state == "drift":
            ndrift += 1
            if prev_state == "drift":
                ctx.label("drift-back-to-back")
        prev_state = state

    ctx.label(name, f"{name}:drifts={min(ndrift, 3)}")
    if ndrift >= 2:
        ctx.label("drifts>=2", f"{name}:drifts>=2")
    if p.get("burn_in") in (0, 1):
        ctx.label("burn_in<=1")
    if hdm:
        ctx.label(f"{name}:detect_batch={db}")


def strat_for(names):
    def strat(tier):
        @st.composite
        def s(draw):
            c = draw(cat.detector_case(names=names))
            if c["det"] == "KdqTreeBatch":
                c["kdq_first_update"] = draw(st.booleans())
            return c

        return s()

    return strat


def _md3_check(case, ctx):
    from vlib.props import c19

    return c19.check_walk(case, ctx)


def _md3_strategy(tier):
    from vlib.props import c19

    return c19.strat_walk(tier)


def _md3_desc(case):
    from vlib.props import c19

    return c19._desc(case)


def _sub(name, dets, quick, thorough, shards=8):
    return SubCheck(
        name,
        check_lifecycle,
        strategy=strat_for(dets),
        nontrivial=lambda L: "drifts>=2" in L,
        quick=quick,
        thorough=thorough,
        shards_quick=shards,
        describe=lambda c: {"det": c["det"], "params": c["params"], "n_items": len(c["items"]), "first_items": c["items"][:3]},
    )


PROPERTY = {
    "id": "C01",
    "level": "exploration",
    "rule": (
        "For each of the 14 Streaming/Batch detectors (MD3: sub-check md3, driven by the C19 protocol machine): Hypothesis draws small "
        "frequently-firing parameters and a piecewise-stationary multi-epoch history (40-350 samples / 4-12 batches; batch detectors "
        "start with set_reference, KdqTreeBatch also with a first update as reference); an invariant monitor checks after every update: "
        "state domain, total counter, since-reset counter incl. the detector-specific restart value, warm-up minima, retraining_recs at "
        "drift and their clearing. Non-trivial = history with >= 2 reported drifts (>= 3 epochs); per-detector counts in labels."
    ),
    "assumptions": [
        "numpy's global RNG is seeded before every call (seed_base + call index)",
        "CUSUM estimation windows with zero variance and PCACD windows with zero-bandwidth KDE end the case (counted)",
        "NNDVI histories stop when k_nn exceeds the number of distinct pooled points (scikit-learn rejects the query)",
    ],
    "subchecks": [
        _sub("change_detectors", ["ADWIN", "CUSUM", "PageHinkley"], 450, 9000),
        _sub("concept_detectors", ["ADWINAccuracy", "DDM", "EDDM", "STEPD"], 600, 12000),
        _sub("lfr", ["LinearFourRates"], 120, 3000),
        _sub("kdq_streaming", ["KdqTreeStreaming"], 150, 3000),
        _sub("pcacd", ["PCACD"], 100, 3000, shards=16),
        _sub("batch_detectors", ["KdqTreeBatch", "HDDDM", "CDBD", "NNDVI"], 480, 12000),
        # MD3 (total_updates / updates_since_reset, drift only through the oracle protocol): the C19 protocol
        # walks compare state and both counters with the protocol model after every call
        SubCheck("md3", _md3_check, strategy=_md3_strategy, nontrivial=lambda L: "drifts>=2" in L, quick=200, thorough=4000, shards_quick=8, describe=_md3_desc),
    ],
}
