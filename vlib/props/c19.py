"""C19 - MD3 follows its warn / ask-the-oracle / confirm protocol."""
import copy
import itertools

import numpy as np
import pandas as pd
from hypothesis import strategies as st

from vlib.models import md3 as mm
from vlib.runner import SubCheck, Violation, sut

ALPHABET = ["u_in", "u_out", "u_2rows", "l_ok", "l_bad", "l_cols", "l_2rows"]
TIE = 1e-12


def ref_frame(ref):
    """ref: list of [x, m, y] -> DataFrame with ids 0..N-1"""
    return pd.DataFrame({"x": [r[0] for r in ref], "m": [r[1] for r in ref], "id": list(range(len(ref))), "y": [r[2] for r in ref]})


def observe(det):
    rd = det.reference_distribution
    return {
        "state": det.drift_state,
        "waiting": bool(det.waiting_for_oracle),
        "oracle_n": None if det.oracle_data is None else len(det.oracle_data),
        "cur": float(det.curr_margin_density),
        "ref": (int(rd["len"]), float(rd["md"]), float(rd["md_std"]), float(rd["acc"]), float(rd["acc_std"])),
        "total": int(det.total_updates),
        "since": int(det.updates_since_reset),
    }


def model_obs(m):
    return {
        "state": m.state,
        "waiting": m.waiting,
        "oracle_n": len(m.labels) if m.labels else None,
        "cur": m.cur,
        "ref": (m.N, m.md, m.md_std, m.acc, m.acc_std),
        "total": m.total,
        "since": m.since,
    }


def close_obs(a, b):
    for k in ("state", "waiting", "oracle_n", "total", "since"):
        if a[k] != b[k]:
            return k
    if abs(a["cur"] - b["cur"]) > 1e-12:
        return "cur"
    if a["ref"][0] != b["ref"][0] or any(abs(x - y) > 1e-12 for x, y in zip(a["ref"][1:], b["ref"][1:])):
        return "ref"
    return None


class Session:
    """Implementation + model in lockstep; ``apply(op, arg)`` performs one call."""

    _next_log = [0]

    def __init__(self, cfg, ctx=None):
        from menelaus.concept_drift import MD3

        self.cfg = cfg
        self.ctx = ctx
        Session._next_log[0] += 1
        self.log_id = Session._next_log[0]
        mm.LOG[self.log_id] = []
        self.clf = mm.Stub(0.0, log_id=self.log_id)
        ref = cfg["ref"]
        with sut(detector="MD3", op="set_reference"):
            self.det = MD3(self.clf, margin_calculation_function=mm.margin, sensitivity=cfg["sens"], k=cfg["k"], oracle_data_length_required=cfg["L"])
            self.det.set_reference(ref_frame(ref), target_name="y")
        folds = [ids for kind, ids in mm.LOG[self.log_id] if kind == "predict"]
        ids = list(range(len(ref)))
        if not mm.folds_valid(folds, ids, cfg["k"]):
            raise Violation("md3-folds", f"the k={cfg['k']} test folds {folds} do not partition the {len(ref)} reference rows evenly", detector="MD3")
        self.model = mm.MD3Model(cfg["sens"], cfg["k"], cfg["L"])
        self.model.set_reference([(i, r[0], r[1], r[2]) for i, r in enumerate(ref)], folds)
        self.next_id = 1000
        self.history = []
        self._compare("set_reference")

    def clone(self):
        c = Session.__new__(Session)
        c.__dict__.update(self.__dict__)
        c.det = copy.deepcopy(self.det)
        c.clf = c.det.classifier
        c.model = self.model.clone()
        c.history = list(self.history)
        return c

    def _fail(self, kind, msg):
        raise Violation(kind, f"MD3(sens={self.cfg['sens']}, k={self.cfg['k']}, L={self.cfg['L']}, N={len(self.cfg['ref'])}) after {self.history}: {msg}", detector="MD3", case={"cfg": self.cfg, "ops": list(self.history)})

    def _compare(self, where):
        with sut(detector="MD3", op="observe"):
            o = observe(self.det)
        d = close_obs(o, model_obs(self.model))
        if d is not None:
            self._fail("md3-state-mismatch", f"{where}: '{d}' differs: implementation {o}, protocol model {model_obs(self.model)}")

    def _adopted_like_set_reference(self, rows):
        """the labelled samples are adopted "as the new reference": their summary must be the one a newly constructed
        MD3 with the same parameters computes when the same rows are handed to set_reference"""
        from menelaus.concept_drift import MD3

        df = pd.DataFrame([[r[1], r[2], r[0], r[3]] for r in rows], columns=mm.FEATURES + [mm.TARGET])
        with sut(detector="MD3", op="twin.set_reference"):
            twin = MD3(mm.Stub(0.0, log_id=-1), margin_calculation_function=mm.margin, sensitivity=self.cfg["sens"], k=self.cfg["k"], oracle_data_length_required=self.cfg["L"])
            twin.set_reference(df, target_name="y")
            a, b = dict(self.det.reference_distribution), dict(twin.reference_distribution)
        mm.LOG.pop(-1, None)
        bad = [k for k in ("len", "md", "md_std", "acc", "acc_std") if abs(float(a[k]) - float(b[k])) > 1e-12]
        if bad:
            self._fail("md3-adopted-reference-differs-from-set_reference", f"reference adopted from the oracle samples {a} differs in {bad} from set_reference on the same rows by a new detector {b}")
        if self.ctx:
            self.ctx.label("adopted-vs-set_reference")

    def apply(self, op, xval=0.5):
        """op in ALPHABET; xval: the decision feature of the sample"""
        self.history.append([op, xval])
        m = self.model
        before = None
        with sut(detector="MD3", op="observe"):
            before = observe(self.det)
        mm.LOG[self.log_id] = []
        nid = self.next_id
        self.next_id += 2
        raised = None
        if op.startswith("u_"):
            mval = 0.0 if op == "u_in" else 3.0
            rows = [[xval, mval, nid]] + ([[xval, mval, nid + 1]] if op == "u_2rows" else [])
            X = pd.DataFrame(rows, columns=mm.FEATURES)
            X = X[list(self.det.reference_batch_features.columns)]  # samples follow the reference's current column order
            try:
                with sut(detector="MD3", op=op, allow=(ValueError,)):
                    self.det.update(X)
            except ValueError as e:
                raised = e
            exp = m.update(mval, nrows=len(rows))
            if exp is None and abs(m.margin_gap) <= TIE and raised is None:
                # knife-edge: adopt the implementation's decision
                w = self.det.drift_state == "warning"
                m.state = "warning" if w else None
                m.waiting = w
                if self.ctx:
                    self.ctx.label("tie")
        else:
            pred = int(xval > 0.0)
            y = pred if op != "l_bad" else 1 - pred
            cols = mm.FEATURES + [mm.TARGET]
            lm_ = 0.0 if int(round(xval * 16)) % 4 < 2 else 3.0  # labelled samples lie inside or outside the margin
            row = [xval, lm_, nid, y]
            rows = [row] + ([[xval, lm_, nid + 1, y]] if op == "l_2rows" else [])
            df = pd.DataFrame(rows, columns=cols)
            if (nid // 2) % 3 == 1:
                df = df[["y", "id", "m", "x"]]  # same columns in another order (columns are matched by name)
            elif (nid // 2) % 3 == 2:
                df = df[["m", "x", "y", "id"]]
            if op == "l_cols":
                df = df.rename(columns={"m": "other"}) if (nid // 2) % 2 else df.drop(columns=["m"])
            try:
                with sut(detector="MD3", op=op, allow=(ValueError,)):
                    self.det.give_oracle_label(df)
            except ValueError as e:
                raised = e
            exp = m.label((nid, xval, lm_, y), columns_ok=(op != "l_cols"), nrows=len(rows))
            if exp == "confirm":
                if abs(m.acc_gap) <= TIE and raised is None:
                    if m.state == "drift" and self.det.drift_state != "drift":
                        m.state = None
                        m.drifts -= 1
                    elif m.state != "drift" and self.det.drift_state == "drift":
                        m.state = "drift"
                        m.drifts += 1
                preds = [ids for kind, ids in mm.LOG[self.log_id] if kind == "predict"]
                folds = preds[1:]
                ids = [r[0] for r in m.labels]
                if raised is None and (not preds or sorted(preds[0]) != sorted(ids)):
                    self._fail("md3-confirmation-data", f"accuracy was evaluated on rows {preds[:1]} instead of the {len(ids)} labelled rows {ids}")
                if raised is None and not mm.folds_valid(folds, ids, self.cfg["k"]):
                    self._fail("md3-folds", f"new reference folds {folds} do not partition the labelled rows {ids}")
                if raised is None:
                    adopted = list(m.labels)
                    m.finish_confirm(folds)
                    self._adopted_like_set_reference(adopted)
                    if self.ctx:
                        self.ctx.label("confirmation", "confirmed-drift" if m.state == "drift" else "ruled-out")
        if exp == "refused":
            if raised is None:
                self._fail("md3-not-refused", f"call {op} must be refused in state waiting={before['waiting']} but was accepted")
            with sut(detector="MD3", op="observe"):
                after = observe(self.det)
            if after != before:
                self._fail("md3-refused-call-changed-state", f"refused {op} changed {[k for k in after if after[k] != before[k]]}: {before} -> {after}")
            if self.ctx:
                self.ctx.label("refused:" + ("waiting" if before["waiting"] else "idle"))
        else:
            if raised is not None:
                self._fail("md3-legal-call-refused", f"call {op} is legal (waiting={before['waiting']}) but raised {raised!r}")
        self._compare(op)


def check_walk(case, ctx):
    s = Session(case["cfg"], ctx)
    after_confirm_updates = 0
    for op, xval in case["ops"]:
        if op == "progress":
            op = ("l_bad" if -0.5 < xval < 0 else "l_ok") if s.model.waiting else ("u_in" if abs(xval) < 1 else "u_out")
        conf_before = s.model.confirmations
        s.apply(op, xval)
        if s.model.confirmations and op.startswith("u_") and s.model.confirmations == conf_before and not s.history[-1][0].endswith("2rows"):
            after_confirm_updates += 1
    m = s.model
    ctx.label(f"confirmations={min(m.confirmations, 3)}", f"drifts={min(m.drifts, 3)}")
    if m.drifts >= 2:
        ctx.label("drifts>=2")
    if m.confirmations >= 1 and after_confirm_updates >= 1:
        ctx.label("nontrivial")


def small_ref(n, flavour):
    """deterministic small reference batches: [x, m, y]"""
    out = []
    for i in range(n):
        x = [-1.5, 0.75, -0.25, 1.25, 0.5, -0.75, 2.0, -2.0][i % 8]
        if flavour == "all-in":
            mval = 0.0
        elif flavour == "all-out":
            mval = 3.0
        else:
            mval = [0.0, 3.0, 0.5, -2.5][(i * 3) % 4]
        y = int(x > 0) if (i % 5) else 1 - int(x > 0)
        out.append([x, mval, y])
    return out


CONFIGS = [
    {"ref": small_ref(4, "all-in"), "sens": 0.5, "k": 2, "L": 2},
    {"ref": small_ref(6, "all-out"), "sens": 1.0, "k": 3, "L": 3},
    {"ref": small_ref(5, "mixed"), "sens": 2.0, "k": 2, "L": 2},
    {"ref": small_ref(8, "mixed"), "sens": 0.5, "k": 4, "L": None},
    {"ref": small_ref(6, "mixed"), "sens": 0, "k": 2, "L": 2},
]


def enum_interleavings(tier, shard, nshards):
    i = 0
    for ci, cfg in enumerate(CONFIGS):
        for first in ALPHABET:
            for second in ALPHABET:
                if i % nshards == shard:
                    yield {"cfg": cfg, "prefix": [first, second], "depth": 5 if tier == "quick" else 6}
                i += 1


def check_subtree(case, ctx):
    """every interleaving over the 7-letter alphabet that extends ``prefix`` up to ``depth`` calls (prefix tree, sessions copied per branch)"""
    if "ops" in case:
        return check_walk(case, ctx)
    counts = {"n": 0, "nt": 0}
    s = Session(case["cfg"], None)
    xs = [0.5, -0.5, 1.5, -1.0, 0.25, -0.25, 0.125]

    def rec(sess, depth):
        if depth >= case["depth"]:
            return
        for op in ALPHABET:
            s2 = sess.clone()
            s2.apply(op, xs[depth % len(xs)])
            counts["n"] += 1
            if s2.model.confirmations >= 1 and op in ("u_in", "u_out"):
                counts["nt"] += 1
            rec(s2, depth + 1)

    for d, op in enumerate(case["prefix"]):
        s.apply(op, xs[d % len(xs)])
    counts["n"] += 1
    rec(s, len(case["prefix"]))
    ctx.evals = counts["n"]
    ctx.nt_evals = counts["nt"]
    ctx.label("interleavings")


def strat_walk(tier):
    @st.composite
    def s(draw):
        n = draw(st.integers(4, 30))
        k = draw(st.integers(2, min(5, n)))
        L = draw(st.one_of(st.none(), st.integers(k, 8)))
        sens = draw(st.sampled_from([0, 0.0, 0.5, 1, 2, 2]))
        xs = st.integers(-16, 16).map(lambda v: v / 8 + 0.0625)
        flav = draw(st.sampled_from(["mixed", "mixed", "in", "out"]))
        ref = []
        for i in range(n):
            x = draw(xs)
            mval = 0.0 if flav == "in" else 3.0 if flav == "out" else draw(st.sampled_from([0.0, 0.5, 3.0, -2.5]))
            y = int(x > 0) if draw(st.integers(0, 4)) else 1 - int(x > 0)
            ref.append([x, mval, y])
        nops = draw(st.integers(3, 60))
        ops = []
        for _ in range(nops):
            op = draw(st.sampled_from(["progress"] * 6 + ALPHABET))
            ops.append([op, draw(xs) if op != "progress" else draw(st.integers(-16, 16).map(lambda v: v / 8 + 0.0625))])
        return {"cfg": {"ref": ref, "sens": sens, "k": k, "L": L}, "ops": ops}

    return s()


def _desc(c):
    cfg = c["cfg"]
    d = {"cfg": {"N": len(cfg["ref"]), "k": cfg["k"], "L": cfg["L"], "sens": cfg["sens"], "ref_first": cfg["ref"][:3]}}
    if "ops" in c:
        d["ops"] = c["ops"][:12]
    else:
        d["prefix"] = c["prefix"]
        d["depth"] = c["depth"]
    return d


PROPERTY = {
    "id": "C19",
    "level": "model_checking",
    "rule": (
        "interleavings: for 5 small reference batches (N=4..8, k=2..4, L=2..N, sensitivity 0..2) every sequence of up to 5 (quick) / 6 (thorough) calls over "
        "the alphabet {update in-margin, update out-of-margin, update with 2 rows, label correct, label wrong, label with wrong columns, label "
        "with 2 rows} is executed against MD3 (deterministic cloneable stub classifier that records the folds it is fitted / evaluated on, "
        "user margin function) in lockstep with the protocol model written from the statement; after every call drift_state, "
        "waiting_for_oracle, oracle_data, curr_margin_density, reference_distribution and both counters are compared, refusals must "
        "be exactly the documented ones and leave all observables unchanged, fold validity (k test folds partition the rows evenly) is "
        "checked. protocol_walks: Hypothesis walks of 3-60 calls (N up to 30, k 2..5, L k..8 or default, mostly state-dependent 'progress' "
        "moves plus arbitrary letters). Non-trivial = a confirmation (drift or ruled out) followed by an update from the new reference."
    ),
    "assumptions": [
        "decisions within 1e-12 of their threshold adopt the implementation's outcome (counted as 'tie')",
        "KFold(shuffle, random_state=42) is trusted to be deterministic; the partition property of its folds is checked",
    ],
    "subchecks": [
        SubCheck("interleavings", check_subtree, enumerate=enum_interleavings, shards_quick=16, shards_thorough=16, exhaustive=True, describe=_desc),
        SubCheck("protocol_walks", check_walk, strategy=strat_walk, nontrivial=lambda L: "nontrivial" in L, quick=300, thorough=20000, shards_quick=16, describe=_desc),
    ],
}
