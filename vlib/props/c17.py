"""C17 - a stricter confidence setting never makes a detector alarm earlier (metamorphic)."""
import math

import numpy as np
from hypothesis import strategies as st

from vlib import catalogue as cat
from vlib import strategies as vs
from vlib.runner import SubCheck, Violation, sut

INF = 10**9

# family -> (detector, parameter, candidate values, "stricter is" smaller/larger)
DRIFT_KNOBS = {
    "ADWIN": ("delta", [0.002, 0.01, 0.05, 0.3, 0.9, 1.0], "smaller"),
    "CUSUM": ("threshold", [0.5, 1, 2, 3, 4, 5, 6, 8, 9.5, 12, 50], "larger"),
    "PageHinkley": ("threshold", [0.1, 0.5, 2, 5, 20, 100], "larger"),
    "DDM": ("drift_scale", [1.5, 2, 2.5, 3, 4], "larger"),
    "EDDM": ("drift_thresh", [0.3, 0.5, 0.8, 0.9, 0.95], "smaller"),
    "STEPD": ("alpha_drift", [0.0001, 0.003, 0.05, 0.1, 0.3], "smaller"),
    "LinearFourRates": ("detect_level", [0.001, 0.01, 0.05, 0.1, 0.3], "smaller"),
    "KdqTreeStreaming": ("alpha", [0.001, 0.01, 0.05, 0.2, 0.4, 0.6], "smaller"),
    "KdqTreeBatch": ("alpha", [0.001, 0.01, 0.05, 0.2, 0.4, 0.6], "smaller"),
    "NNDVI": ("alpha", [0.001, 0.01, 0.05, 0.2, 0.4, 0.6], "smaller"),
    "HDDDM": ("significance", None, None),
    "CDBD": ("significance", None, None),
}
WARN_KNOBS = {
    "DDM": ("warning_scale", [0.5, 1, 1.5, 2], "smaller"),  # looser = smaller
    "EDDM": ("warning_thresh", [0.9, 0.95, 0.99, 1.0], "larger"),
    "STEPD": ("alpha_warning", [0.05, 0.2, 0.3, 0.6], "larger"),
    "LinearFourRates": ("warning_level", [0.001, 0.01, 0.05, 0.1, 0.2, 0.4], "larger"),
}


def run_trace(spec, name, params, items, base, ctx=None):
    with sut(detector=name):
        det = spec.make(params)
    states = []
    means = []
    tot = 0.0
    n = 0
    for i, item in enumerate(items):
        X = None if spec.kind == "y" else cat.as_input(spec, item)
        if name == "NNDVI" and i > 0 and not cat.nndvi_domain_ok(det, X):
            break
        try:
            with sut(detector=name, allow=(ValueError,)):
                np.random.seed(base + i)
                if spec.kind == "y":
                    det.update(item[0], item[1])
                elif spec.family == "batch" and i == 0:
                    det.set_reference(X)
                else:
                    det.update(X)
        except ValueError as e:
            if cat.is_domain_end(name, det, e):
                break
            raise
        states.append(det.drift_state)
    return states


def first(states, what="drift"):
    for i, s in enumerate(states):
        if s == what:
            return i
    return INF


def check_drift_knob(case, ctx):
    name = case["det"]
    spec = cat.SPECS[name]
    knob = case["knob"]
    loose, strict = case["loose"], case["strict"]
    base = case["seed_base"]
    pl = dict(case["params"])
    ps = dict(case["params"])
    pl[knob] = loose
    ps[knob] = strict
    items = case["items"]
    if spec.uses_rng:
        # an earlier object with the looser setting, same data, other random numbers: results memoised across
        # objects (per setting) would make the two compared runs see different random quantities
        run_trace(spec, name, pl, items, base + 7919)
    sl = run_trace(spec, name, pl, items, base)
    ss = run_trace(spec, name, ps, items, base)
    fl, fs = first(sl), first(ss)
    if fs < fl:
        sig = dict(detector=name, knob=knob)
        raise Violation(
            "stricter-setting-alarms-earlier",
            f"{name}({case['params']}): with {knob}={strict} (stricter) the first drift is at item {fs}, with {knob}={loose} (looser) at {'never' if fl == INF else fl}",
            **sig,
        )
    ctx.label(name, f"{name}:{knob}")
    if fl < INF:
        ctx.label("looser-alarms")
        if fs > fl:
            ctx.label("nontrivial", f"{name}:nontrivial")
    if loose == strict:
        ctx.label("equal-values")


def check_warn_knob(case, ctx):
    name = case["det"]
    spec = cat.SPECS[name]
    knob = case["knob"]
    loose, strict = case["loose"], case["strict"]
    base = case["seed_base"]
    pl = dict(case["params"])
    ps = dict(case["params"])
    pl[knob] = loose
    ps[knob] = strict
    items = case["items"]
    sl = run_trace(spec, name, pl, items, base)
    ss = run_trace(spec, name, ps, items, base)
    dl = [i for i, s in enumerate(sl) if s == "drift"]
    ds = [i for i, s in enumerate(ss) if s == "drift"]
    if dl != ds:
        raise Violation(
            "warning-threshold-changes-drift",
            f"{name}({case['params']}): drift positions {ds[:6]} with {knob}={strict} but {dl[:6]} with {knob}={loose} (only the warning threshold differs)",
            detector=name,
            knob=knob,
        )
    wl = {i for i, s in enumerate(sl) if s == "warning"}
    ws = {i for i, s in enumerate(ss) if s == "warning"}
    if not ws <= wl:
        raise Violation(
            "looser-warning-removes-warning",
            f"{name}({case['params']}): warnings at {sorted(ws - wl)[:6]} with {knob}={strict} disappear with the looser {knob}={loose}",
            detector=name,
            knob=knob,
        )
    ctx.label(name, f"{name}:{knob}")
    if wl - ws:
        ctx.label("nontrivial", f"{name}:nontrivial")


@st.composite
def pair_from(draw, values):
    """ordered pair (lo, hi) of ladder values: mostly far apart, sometimes adjacent, rarely equal"""
    n = len(values)
    mode = draw(st.sampled_from(["far", "far", "far", "any", "any", "equal"]))
    if mode == "equal":
        v = draw(st.sampled_from(values))
        return v, v
    if mode == "far":
        i = draw(st.integers(0, max(0, n // 3)))
        j = draw(st.integers(min(n - 1, n - 1 - n // 3), n - 1))
    else:
        i = draw(st.integers(0, n - 2))
        j = draw(st.integers(i + 1, n - 1))
    return values[min(i, j)], values[max(i, j)]


def base_params(draw, name):
    spec = cat.SPECS[name]
    p = draw(spec.params())
    return p


def strat_drift(names, cusum_known=False):
    def strat(tier):
        @st.composite
        def s(draw):
            name = draw(st.sampled_from(names))
            spec = cat.SPECS[name]
            p = draw(spec.params())
            knob, values, stricter = DRIFT_KNOBS[name]
            if name in ("HDDDM", "CDBD"):
                if p["statistic"] == "tstat":
                    values, stricter = [0.001, 0.01, 0.05, 0.2, 0.5, 0.9], "smaller"
                else:
                    values, stricter = [0.0, 0.5, 1.0, 2.0, 3.0], "larger"
            lo, hi = draw(pair_from(values))
            strict, loose = (lo, hi) if stricter == "smaller" else (hi, lo)
            ncols = draw(spec.ncols())
            items = draw(cat.history(name, p, ncols))
            if name == "CUSUM" and "target" not in p and (cusum_known or draw(st.booleans())):
                p["target"] = 0.0
                p["sd_hat"] = draw(st.sampled_from([0.5, 1.0, 2.0, 4.0]))
            if name == "CUSUM" and "target" in p and draw(st.integers(0, 3)) > 0:
                # a known target near the level the stream starts at: the sums then grow slowly through burn-in
                p["target"] = items[0][0] + draw(st.sampled_from([0.0, 0.5, -0.5, 1.0, -1.0, 2.0])) * p["sd_hat"]
            return {"det": name, "params": p, "knob": knob, "loose": loose, "strict": strict, "ncols": ncols, "items": items, "seed_base": draw(vs.seed_base)}

        return s()

    return strat


def strat_warn(tier):
    @st.composite
    def s(draw):
        name = draw(st.sampled_from(list(WARN_KNOBS)))
        spec = cat.SPECS[name]
        p = draw(spec.params())
        knob, values, looser = WARN_KNOBS[name]
        lo, hi = draw(pair_from(values))
        loose, strict = (lo, hi) if looser == "smaller" else (hi, lo)
        items = draw(cat.history(name, p, 0))
        return {"det": name, "params": p, "knob": knob, "loose": loose, "strict": strict, "items": items, "seed_base": draw(vs.seed_base)}

    return s()


def _desc(c):
    return {k: (v if k != "items" else {"n": len(v), "first": v[:3]}) for k, v in c.items()}


def _sub(name, dets, quick, thorough, shards=8):
    return SubCheck(name, check_drift_knob, strategy=strat_drift(dets), nontrivial=lambda L: "nontrivial" in L, quick=quick, thorough=thorough, shards_quick=shards, describe=_desc)


PROPERTY = {
    "id": "C17",
    "level": "exploration",
    "rule": (
        "For each detector family a catalogue history (multi-epoch, small frequently-firing parameters) and an ordered pair of values of "
        "the detection threshold (drawn from a ladder incl. equal and extreme values): ADWIN delta, CUSUM / PageHinkley threshold, DDM "
        "drift_scale, EDDM drift_thresh, STEPD alpha_drift, LFR detect_level, KdqTreeStreaming / KdqTreeBatch / NNDVI alpha, HDDDM / CDBD "
        "significance (t-test level or number of standard deviations). Both runs use the same per-call numpy seeds; the index of the first "
        "drift under the stricter value must be >= the index under the looser value. warning_knobs: DDM warning_scale, EDDM warning_thresh, "
        "STEPD alpha_warning, LFR warning_level: drift positions identical over the whole history and the stricter run's warnings a subset of "
        "the looser run's. Non-trivial = the looser run alarms and the stricter run alarms strictly later or never (resp. a warning appears "
        "only in the looser run)."
    ),
    "assumptions": [
        "Page-Hinkley: the alarm level threshold * running mean may be negative, the relation still holds because the statistic is never negative",
        "the relation is exact because both runs see identical statistics until the looser one alarms",
    ],
    "subchecks": [
        _sub("change", ["ADWIN", "CUSUM", "PageHinkley"], 450, 9000),
        # CUSUM with a known mean / s.d. near the level the stream starts at: the sums are live during burn-in
        SubCheck("cusum_known_target", check_drift_knob, strategy=strat_drift(["CUSUM"], cusum_known=True), nontrivial=lambda L: "nontrivial" in L, quick=600, thorough=12000, shards_quick=8, describe=_desc),
        _sub("concept", ["DDM", "EDDM", "STEPD"], 450, 9000),
        _sub("lfr", ["LinearFourRates"], 120, 3000),
        _sub("kdq", ["KdqTreeStreaming", "KdqTreeBatch"], 400, 8000, shards=16),
        _sub("batch", ["NNDVI", "HDDDM", "CDBD"], 450, 9000),
        SubCheck("warning_knobs", check_warn_knob, strategy=strat_warn, nontrivial=lambda L: "nontrivial" in L, quick=450, thorough=9000, shards_quick=8, describe=_desc),
    ],
}
