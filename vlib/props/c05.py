"""C05 - DDM, EDDM and STEPD decide from the error sequence exactly as specified."""
import copy

from hypothesis import strategies as st

from vlib import strategies as vs
from vlib.models.ddm_eddm_stepd import DDMSpec, EDDMSpec, STEPDSpec
from vlib.runner import Decoy, SubCheck, Violation, sut
from vlib.tolerant import Forker, close

SPECS = {"DDM": DDMSpec, "EDDM": EDDMSpec, "STEPD": STEPDSpec}
PNAMES = {
    "DDM": ("n_threshold", "warning_scale", "drift_scale"),
    "EDDM": ("n_threshold", "warning_thresh", "drift_thresh"),
    "STEPD": ("window_size", "alpha_warning", "alpha_drift"),
}


def make(det, params):
    from menelaus.concept_drift import DDM, EDDM, STEPD

    cls = {"DDM": DDM, "EDDM": EDDM, "STEPD": STEPD}[det]
    return cls(**{k: params[i] for i, k in enumerate(PNAMES[det])})


def norm_recs(r):
    return tuple(None if v is None else int(v) for v in list(r))


def observe(d):
    return (d.drift_state, norm_recs(d.retraining_recs))


def _clone_model(m):
    return m.clone()


def advance(det_name, d, fk, err, step, seq_so_far, params):
    """One lockstep update; returns the set of alive model outputs."""
    with sut(detector=det_name):
        d.update(1, 0 if err else 1)
        obs = observe(d)
    verdict, outs = fk.advance(lambda m, ch: m.step(err, ch), lambda o: o == obs)
    if verdict == "mismatch":
        raise Violation(
            "spec-mismatch",
            f"{det_name}{tuple(params)} after errors={seq_so_far}: implementation (state, recs)={obs}, specification admits {sorted(set(outs), key=str)}",
            detector=det_name,
            case={"det": det_name, "params": list(params), "seq": list(seq_so_far)},
        )
    if det_name == "STEPD":
        with sut(detector=det_name):
            acc = (d.recent_accuracy(), d.past_accuracy(), d.overall_accuracy())
        want = fk.states[0].accuracies()
        for nm, a, w in zip(("recent", "past", "overall"), acc, want):
            if not close(a, float(w), 1e-12, 1e-12):
                raise Violation(
                    "accuracy-mismatch",
                    f"STEPD{tuple(params)} {nm}_accuracy()={a}, expected {w} after errors={seq_so_far}",
                    detector=det_name,
                    case={"det": det_name, "params": list(params), "seq": list(seq_so_far)},
                )
    return verdict, obs


def check_seq(case, ctx):
    det_name, params, seq = case["det"], case["params"], case["seq"]
    with sut(detector=det_name):
        d = make(det_name, params)
    decoy = Decoy(lambda: make(det_name, params), lambda o, e_: o.update(1, e_), every=2)
    fk = Forker(SPECS[det_name](*params), copier=_clone_model)
    nwarn = ndrift = 0
    for i, e in enumerate(seq):
        decoy.step((i // 2) % 2)
        verdict, obs = advance(det_name, d, fk, e, i, seq[: i + 1], params)
        if verdict == "overflow":
            ctx.label("truncated-ambiguous")
            break
        nwarn += obs[0] == "warning"
        ndrift += obs[0] == "drift"
    if fk.forked_steps:
        ctx.label("met-tie")
    ctx.label(det_name)
    if nwarn:
        ctx.label("warning")
    if ndrift:
        ctx.label("drift")
    if ndrift >= 2:
        ctx.label("epochs>=3")
    if ndrift >= 1 and nwarn >= 1:
        ctx.label("warn+drift")


# -------------------------------------------------------------- exhaustive
GRID = (
    [("DDM", [nt, ws, ds]) for nt in (1, 2, 3, 5) for ws, ds in ((2, 3), (1.5, 2.5), (1, 2), (2.5, 1.2))]
    + [("EDDM", [nt, wt, dt]) for nt in (1, 2, 3, 5) for wt, dt in ((0.95, 0.9), (0.9, 0.7), (0.99, 0.5), (0.7, 0.9))]
    + [("STEPD", [w, aw, ad]) for w in (1, 2, 3, 4) for aw, ad in ((0.05, 0.003), (0.3, 0.1), (0.5, 0.2), (0.1, 0.3))]
)
PREFIX_BITS = 3


def enum_subtrees(tier, shard, nshards):
    depth = 12 if tier == "quick" else 17
    i = 0
    for det, params in GRID:
        for pfx in range(2**PREFIX_BITS):
            if i % nshards == shard:
                bits = [(pfx >> b) & 1 for b in range(PREFIX_BITS)]
                yield {"det": det, "params": params, "prefix": bits, "depth": depth}
            i += 1


def check_subtree(case, ctx):
    """All binary sequences that extend ``prefix`` up to length ``depth`` (prefix
    tree; detector and admissible model states are copied at each branch)."""
    if "seq" in case:  # minimal replay produced by a failure below
        return check_seq(case, ctx)
    det_name, params, prefix, depth = case["det"], case["params"], case["prefix"], case["depth"]
    with sut(detector=det_name):
        d = make(det_name, params)
    fk = Forker(SPECS[det_name](*params), copier=_clone_model)
    counts = {"nodes": 0, "nt": 0, "tie": 0}
    seq = []
    flags = (False, False)  # (seen warning, seen drift)
    ok = True
    for i, e in enumerate(prefix):
        seq.append(e)
        verdict, obs = advance(det_name, d, fk, e, i, seq, params)
        if verdict == "overflow":
            ok = False
            break
        flags = (flags[0] or obs[0] == "warning", flags[1] or obs[0] == "drift")
        if i == len(prefix) - 1:
            # sequences shorter than PREFIX_BITS are checked on the way but not counted
            counts["nodes"] += 1
            counts["nt"] += flags[0] and flags[1]

    def rec(d, fk, seq, flags):
        if len(seq) >= depth:
            return
        for e in (0, 1):
            d2 = copy.deepcopy(d)
            fk2 = Forker(None, copier=_clone_model)
            fk2.states = [m.clone() for m in fk.states]
            seq.append(e)
            verdict, obs = advance(det_name, d2, fk2, e, len(seq) - 1, seq, params)
            if verdict != "overflow":
                f2 = (flags[0] or obs[0] == "warning", flags[1] or obs[0] == "drift")
                counts["nodes"] += 1
                counts["nt"] += f2[0] and f2[1]
                counts["tie"] += fk2.forked_steps
                rec(d2, fk2, seq, f2)
            seq.pop()

    if ok:
        rec(d, fk, seq, flags)
    ctx.evals = counts["nodes"]
    ctx.nt_evals = counts["nt"]
    ctx.label(det_name)
    ctx.notes["label_counts"] = {f"{det_name}:sequences": counts["nodes"], f"{det_name}:steps-with-tie": counts["tie"]}


# ------------------------------------------------------------------ random
def strat_random(tier):
    @st.composite
    def s(draw):
        det = draw(st.sampled_from(["DDM", "EDDM", "STEPD"]))
        # threshold pairs are independent draws: "warning stricter than drift" orderings are legal (unvalidated) inputs too
        if det == "DDM":
            params = [draw(st.integers(1, 30)), draw(st.sampled_from([1, 1.5, 2, 2.5, 3.5])), draw(st.sampled_from([1.2, 2, 2.5, 3]))]
        elif det == "EDDM":
            params = [draw(st.integers(1, 30)), draw(st.sampled_from([0.99, 0.95, 0.9, 0.7])), draw(st.sampled_from([0.95, 0.9, 0.8, 0.5]))]
        else:
            params = [draw(st.integers(1, 30)), draw(st.sampled_from([0.05, 0.2, 0.3, 0.01])), draw(st.sampled_from([0.003, 0.05, 0.1, 0.25]))]
        seq = draw(vs.error_seq())
        return {"det": det, "params": params, "seq": seq}

    return s()


PROPERTY = {
    "id": "C05",
    "level": "exploration",
    "rule": (
        "exhaustive_prefix_tree: every binary outcome sequence of length 1..n (n=12 quick, 17 thorough) for 48 small "
        "settings (DDM/EDDM n_threshold in {1,2,3,5} x 4 threshold pairs, STEPD window in {1,2,3,4} x 4 alpha pairs, each incl. one pair with the warning level stricter than the drift level), explored as a "
        "prefix tree; one evaluation = one sequence, compared after its last sample (and, by construction, after every "
        "earlier one) with the executable specification; non-trivial = the sequence contains a warning and a drift. "
        "random_long: Hypothesis piecewise-stationary sequences (up to 600 samples, n_threshold/window up to 30); "
        "non-trivial = at least two drifts (three epochs) and a warning. Ties inside 1e-9 fork the specification, except DDM's two exact ties (deviation exactly 0 on a constant prefix; current point is the new minimum and the scale is 1), which are decided by the documented >=."
    ),
    "assumptions": [
        "DDM's deviation recurrence and use of the current s follow code + test_ddm::test_warning (docstring's s_min is not what the suite pins)",
        "strictness of floating comparisons at exact ties is not decided (both outcomes admitted)",
    ],
    "subchecks": [
        SubCheck(
            "exhaustive_prefix_tree",
            check_subtree,
            enumerate=enum_subtrees,
            shards_quick=16,
            shards_thorough=16,
            exhaustive=True,
            describe=lambda c: {k: c[k] for k in ("det", "params", "prefix", "depth")},
        ),
        SubCheck(
            "random_long",
            check_seq,
            strategy=strat_random,
            nontrivial=lambda L: "epochs>=3" in L and "warn+drift" in L,
            quick=600,
            thorough=12000,
            shards_quick=8,
        ),
    ],
}
