"""C12 - an ensemble is its election applied to members that run exactly as if alone."""
import numpy as np
import pandas as pd
from hypothesis import strategies as st

from vlib import catalogue as cat
from vlib import strategies as vs
from vlib.props import c13
from vlib.props.c14 import NAMES, SMALL
from vlib.runner import SubCheck, Violation, sut

_SEEDED = {}


def seeded(cls):
    """thin subclass: seeds numpy's global RNG per member and step, so that a member inside an
    ensemble and its stand-alone twin see the same random numbers"""
    if cls not in _SEEDED:

        class S(cls):
            def update(self, *a, **k):
                self._v_step = getattr(self, "_v_step", 0) + 1
                np.random.seed(self._v_seed + self._v_step)
                return super().update(*a, **k)

            def set_reference(self, *a, **k):
                self._v_step = getattr(self, "_v_step", 0) + 1
                np.random.seed(self._v_seed + self._v_step)
                return super().set_reference(*a, **k)

        S.__name__ = cls.__name__
        S.__qualname__ = cls.__qualname__
        _SEEDED[cls] = S
    return _SEEDED[cls]


def make_member(m, mi, base):
    spec = cat.SPECS[m["det"]]
    p = dict(m["params"])
    if p.get("divergence") == "TV":
        p["divergence"] = cat.total_divergence
    d = seeded(spec.cls())(**p)
    d._v_seed = base + 1000 * (mi + 1)
    return d


def make_selector(cols, container):
    if cols is None:
        return None
    if container == "df":
        names = [NAMES[c] for c in cols]
        return lambda X: X[names]
    return lambda X: X[:, cols]


def make_election(e):
    from menelaus.ensemble import ConfirmedElection, MinimumApprovalElection, OrderedApprovalElection, SimpleMajorityElection

    if e["type"] == "simple":
        return SimpleMajorityElection()
    if e["type"] == "min":
        return MinimumApprovalElection(approvals_needed=e["a"])
    if e["type"] == "ordered":
        return OrderedApprovalElection(approvals_needed=e["a"], confirmations_needed=e["c"])
    return ConfirmedElection(sensitivity=e["a"], wait_time=e["c"])


class ElectionRef:
    def __init__(self, e, n):
        self.e = e
        self.rem = [0] * n

    def __call__(self, states):
        vec = [c13.ENC[s] for s in states]
        t = self.e["type"]
        if t == "simple":
            return c13.ref_simple(vec)
        if t == "min":
            return c13.ref_min(vec, self.e["a"])
        if t == "ordered":
            return c13.ref_ordered(vec, self.e["a"], self.e["c"])
        r, self.rem = c13.model_step(self.rem, vec, self.e["a"], self.e["c"])
        return r


def present(X, container, ncols):
    a = np.array(X, dtype=float)
    if container == "df":
        return pd.DataFrame(a, columns=NAMES[:ncols])
    return a


def check_ensemble(case, ctx):
    from menelaus.ensemble import BatchEnsemble, StreamingEnsemble

    family = case["family"]
    members = case["members"]
    base = case["seed_base"]
    container = case["container"]
    ncols = case["ncols"]
    keys = [m["key"] for m in members]
    with sut(ensemble=family):
        inside = {m["key"]: make_member(m, i, base) for i, m in enumerate(members)}
        twins = {m["key"]: make_member(m, i, base) for i, m in enumerate(members)}
        selectors = {m["key"]: make_selector(m["cols"], container) for m in members if m["cols"] is not None}
        Ens = StreamingEnsemble if family == "stream" else BatchEnsemble
        ens = Ens(dict(inside), make_election(case["election"]), dict(selectors))
    ref_el = ElectionRef(case["election"], len(members))
    total = since = 0
    verdicts = []
    drift_times = {k: [] for k in keys}
    sig = dict(ensemble=family)

    def trim(i):
        c = dict(case)
        c["ops"] = case["ops"][: i + 1]
        return c

    def compare(i, what, expected_verdict):
        for k in keys:
            with sut(**sig):
                a = cat.observe(inside[k])
                b = cat.observe(twins[k])
            if a != b:
                d = sorted(x for x in set(a) | set(b) if a.get(x) != b.get(x))
                raise Violation(
                    "member-differs-from-standalone",
                    f"{family} ensemble op {i} ({what}): member {k} ({type(inside[k]).__name__}, cols {[m['cols'] for m in members if m['key'] == k][0]}) differs from its stand-alone twin in {d[:4]}: "
                    + str({x: (a.get(x), b.get(x)) for x in d[:2]})[:500],
                    case=trim(i),
                    **sig,
                )
        with sut(**sig):
            ds = ens.drift_states
            rr = ens.retraining_recs
        want_ds = {k: twins[k].drift_state for k in keys}
        if ds != want_ds or list(ds.keys()) != keys:
            raise Violation("ensemble-drift_states", f"op {i} ({what}): drift_states={ds}, members report {want_ds}", case=trim(i), **sig)
        want_rr = {k: cat.norm_recs(twins[k].retraining_recs) for k in keys if hasattr(twins[k], "retraining_recs")}
        got_rr = {k: cat.norm_recs(v) for k, v in rr.items()}
        if got_rr != want_rr:
            raise Violation("ensemble-retraining_recs", f"op {i} ({what}): retraining_recs={got_rr}, members report {want_rr}", case=trim(i), **sig)
        if expected_verdict != "skip" and ens.drift_state != expected_verdict:
            raise Violation(
                "ensemble-verdict",
                f"op {i} ({what}): ensemble drift_state={ens.drift_state!r} but election {case['election']} over member states {[want_ds[k] for k in keys]} (insertion order) gives {expected_verdict!r}",
                case=trim(i),
                **sig,
            )
        tot_attr, since_attr = ("total_samples", "samples_since_reset") if family == "stream" else ("total_batches", "batches_since_reset")
        if getattr(ens, tot_attr) != total or getattr(ens, since_attr) != since:
            raise Violation(
                "ensemble-counters", f"op {i} ({what}): {tot_attr}={getattr(ens, tot_attr)} {since_attr}={getattr(ens, since_attr)}, expected {total}/{since}", case=trim(i), **sig
            )

    for i, op in enumerate(case["ops"]):
        kind = op["op"]
        if kind == "reset":
            with sut(**sig):
                ens.reset()
                for k in keys:
                    twins[k].reset()
            since = 0
            compare(i, "reset", None)
            ctx.label("reset")
            continue
        X = present(op["X"], container, ncols)
        yt, yp = op.get("yt"), op.get("yp")

        def sel(k, Xobj):
            return selectors[k](Xobj) if k in selectors else Xobj

        if kind == "set_reference":
            with sut(**sig):
                ens.set_reference(X)
                for k in keys:
                    twins[k].set_reference(X=sel(k, present(op["X"], container, ncols)), y_true=None, y_pred=None)
            compare(i, "set_reference", "skip")
            ctx.label("set_reference")
            continue
        # domain guards (member would raise for a documented reason): end of case
        stop = False
        for k in keys:
            t = twins[k]
            if type(t).__name__ == "NNDVI" and not cat.nndvi_domain_ok(t, np.asarray(sel(k, present(op["X"], container, ncols)), dtype=float)):
                stop = True
        if stop:
            ctx.label("truncated-domain")
            break
        try:
            with sut(allow=(ValueError,), **sig):
                for k in keys:
                    twins[k].update(X=sel(k, present(op["X"], container, ncols)), y_true=yt, y_pred=yp)
        except ValueError as e:
            if any(cat.is_domain_end(type(twins[k_]).__name__, twins[k_], e) for k_ in keys):
                ctx.label("truncated-domain")
                break
            raise Violation("unexpected-exception", f"stand-alone member raised {e!r}", case=trim(i), **sig)
        with sut(**sig):
            ens.update(X, yt, yp) if family == "stream" else ens.update(X)
        total += 1
        since += 1
        states = [twins[k].drift_state for k in keys]
        v = ref_el(states)
        verdicts.append(v)
        for k in keys:
            if twins[k].drift_state == "drift":
                drift_times[k].append(i)
        compare(i, "update", v)
    changes = sum(1 for a, b in zip(verdicts, verdicts[1:]) if a != b)
    drifting = [k for k in keys if drift_times[k]]
    ctx.label(family, "election=" + case["election"]["type"], f"members={len(members)}")
    if changes >= 2:
        ctx.label("verdict-changes>=2")
    if len({tuple(drift_times[k]) for k in drifting}) >= 2:
        ctx.label("members-drift-at-different-times")
    if any(m["cols"] is not None and len(m["cols"]) < ncols for m in members):
        ctx.label("selector-drops-columns")
    if changes >= 2 and "members-drift-at-different-times" in ctx.labels and "selector-drops-columns" in ctx.labels:
        ctx.label("nontrivial")


STREAM_MEMBERS = ["DDM", "EDDM", "STEPD", "LinearFourRates", "ADWINAccuracy", "ADWIN", "CUSUM", "PageHinkley", "KdqTreeStreaming", "PCACD"]
BATCH_MEMBERS = ["HDDDM", "CDBD", "KdqTreeBatch", "NNDVI"]


@st.composite
def election(draw, n):
    t = draw(st.sampled_from(["simple", "min", "ordered", "confirmed"]))
    if t == "simple":
        return {"type": t}
    if t == "min":
        return {"type": t, "a": draw(st.integers(1, n + 1))}
    if t == "ordered":
        return {"type": t, "a": draw(st.integers(1, n)), "c": draw(st.integers(0, 2))}
    return {"type": t, "a": draw(st.integers(1, n + 1)), "c": draw(st.integers(0, 3))}


def strat_ensemble(family):
    def strat(tier):
        @st.composite
        def s(draw):
            ncols = draw(st.integers(2, 4))
            pool = STREAM_MEMBERS if family == "stream" else BATCH_MEMBERS
            n = draw(st.integers(2, 5 if family == "stream" else 4))
            members = []
            for i in range(n):
                name = draw(st.sampled_from(pool))
                spec = cat.SPECS[name]
                p = draw(SMALL[name])
                if spec.kind == "y":
                    cols = None if draw(st.booleans()) else sorted(draw(st.lists(st.integers(0, ncols - 1), unique=True, min_size=1, max_size=ncols)))
                elif spec.univariate:
                    cols = [draw(st.integers(0, ncols - 1))]
                elif name == "PCACD":
                    cols = None if draw(st.booleans()) else sorted(draw(st.lists(st.integers(0, ncols - 1), unique=True, min_size=2, max_size=ncols)))
                else:
                    cols = None if draw(st.integers(0, 2)) == 0 else sorted(draw(st.lists(st.integers(0, ncols - 1), unique=True, min_size=1, max_size=ncols)))
                members.append({"key": f"m{i}_{name}", "det": name, "params": p, "cols": cols})
            el = draw(election(n))
            ops = []
            if family == "stream":
                rows = cat._jitter(draw(vs.row_stream(ncols, min_segments=2, max_segments=5, seg_min=4, seg_max=16, max_total=50, spread=2, shift=6)))
                pairs = draw(vs.pair_seq(min_segments=2, max_segments=4, seg_min=4, seg_max=20, max_total=50))
                for i, r in enumerate(rows):
                    yt, yp = pairs[i % len(pairs)]
                    if i and draw(st.integers(0, 24)) == 0:
                        ops.append({"op": "reset"})
                    ops.append({"op": "update", "X": [r], "yt": yt, "yp": yp})
            else:
                batches = draw(vs.batch_history(ncols, n_min=4, n_max=9, rows_min=6, rows_max=14, spread=2, shift=4, p_shift=0.5))
                ops.append({"op": "set_reference", "X": batches[0]})
                for b in batches[1:]:
                    r = draw(st.integers(0, 11))
                    if r == 0:
                        ops.append({"op": "set_reference", "X": b})
                        continue
                    if r == 1:
                        ops.append({"op": "reset"})
                    ops.append({"op": "update", "X": b})
            return {"family": family, "members": members, "election": el, "ncols": ncols, "container": draw(st.sampled_from(["nd", "nd", "df"])), "ops": ops, "seed_base": draw(vs.seed_base)}

        return s()

    return strat


def _desc(c):
    return {"family": c["family"], "members": [{"det": m["det"], "cols": m["cols"], "params": m["params"]} for m in c["members"]], "election": c["election"], "container": c["container"], "n_ops": len(c["ops"]), "ops_kinds": [o["op"] for o in c["ops"]][:20]}


PROPERTY = {
    "id": "C12",
    "level": "exploration",
    "rule": (
        "streaming: StreamingEnsemble with 2-5 members drawn from DDM, EDDM, STEPD, LFR, ADWINAccuracy, ADWIN / CUSUM / PageHinkley (one "
        "selected column), KdqTreeStreaming, PCACD with small quickly firing parameters; batch: BatchEnsemble with 2-4 members from HDDDM, "
        "CDBD (one column), KdqTreeBatch, NNDVI; the four election types with parameters up to n+1; column selectors as index (ndarray "
        "input) or name (DataFrame input) subsets; histories of up to 50 samples / 8 batches with reset (and set_reference) calls at drawn "
        "positions. A separately constructed twin of every member is fed selector(X), y_true, y_pred; stochastic members are seeded per "
        "member and step. After every ensemble call: each member's observation equals its twin's, drift_states / retraining_recs report the "
        "twins' values keyed alike, drift_state equals the C13 reference election over the twins in insertion order, own counters count "
        "updates and restart only on reset(). Non-trivial = members drift at different times, the verdict changes at least twice and a "
        "selector drops columns."
    ),
    "assumptions": [
        "members that would raise for a documented reason (CUSUM zero variance, PCACD zero bandwidth, NNDVI k_nn > distinct points) end the case",
        "reset() is compared differentially (each member's own reset() on the twin)",
    ],
    "subchecks": [
        SubCheck("streaming", check_ensemble, strategy=strat_ensemble("stream"), nontrivial=lambda L: "nontrivial" in L, quick=300, thorough=15000, shards_quick=16, describe=_desc),
        SubCheck("batch", check_ensemble, strategy=strat_ensemble("batch"), nontrivial=lambda L: "nontrivial" in L, quick=200, thorough=12000, shards_quick=8, describe=_desc),
    ],
}
