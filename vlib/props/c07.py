"""C07 - HDDDM/CDBD alarm exactly when the distance change exceeds the adaptive bound."""
import math

import numpy as np
from hypothesis import strategies as st

from vlib import catalogue as cat
from vlib import strategies as vs
from vlib.models.hdm import HdmModel
from vlib.runner import Decoy, SubCheck, Violation, sut
from vlib.tolerant import Forker, close


def _trim(case, i):
    c = dict(case)
    c["items"] = case["items"][: i + 1]
    c["containers"] = case.get("containers", [])[: i + 1]
    return c


def present(X, container, ncols):
    import pandas as pd

    a = np.array(X, dtype=float)
    integral = bool(np.array_equal(a, np.round(a)))
    if container.endswith("_int") and integral:
        a = a.astype(np.int64)  # the same values carried by an integer dtype
    if container.startswith("df"):
        return pd.DataFrame(a, columns=[f"f{j}" for j in range(ncols)])
    return a


def check_history(case, ctx):
    name = case["det"]
    spec = cat.SPECS[name]
    p = case["params"]
    items = case["items"]
    base = case["seed_base"]
    container = case.get("container", "nd")
    ncols = len(items[0][0])
    with sut(detector=name):
        det = spec.make(p)
        np.random.seed(base)
        det.set_reference(present(items[0], container, ncols))
    decoy = Decoy(lambda: spec.make(p), lambda d, X_, first: (d.set_reference(X_) if first else d.update(X_)), every=1)
    np.random.seed(base + 7919)
    decoy.step(present(items[0], container, ncols), True)
    model = HdmModel(p["divergence"], p["detect_batch"], p["statistic"], p["significance"], p["subsets"], user_fn=cat.total_divergence)
    model.set_reference(items[0])
    fk = Forker(model, copier=lambda m: m.clone())

    def fail(kind, i, msg):
        raise Violation(kind, f"{name}({p}) batch {i}: {msg}", detector=name, case=_trim(case, i))

    # state right after set_reference
    if det.total_batches != model.total or det.reference_n != model.ref_n:
        fail("hdm-after-set_reference", 0, f"total_batches={det.total_batches} reference_n={det.reference_n}, expected {model.total}/{model.ref_n}")
    multi_feature_drift = False
    for i in range(1, len(items)):
        X = items[i]
        np.random.seed(base + i + 7919)
        decoy.step(present(X, container, ncols), False)
        with sut(detector=name):
            np.random.seed(base + i)
            det.update(present(X, container, ncols))
        probe = float(np.random.random())  # generator position after the call = bootstrap draws consumed
        tb = det.total_batches
        obs_drift = det.drift_state == "drift"
        if det.drift_state not in (None, "drift"):
            fail("bad-state", i, f"drift_state={det.drift_state!r}")

        def stepfn(m, ch):
            np.random.seed(base + i)
            o = m.step(X, ch)
            o["probe"] = float(np.random.random())
            return o

        verdict, outs = fk.advance(stepfn, lambda o: o["drift"] == obs_drift)
        if all(o["probe"] != probe for o in outs):
            fail("hdm-random-draws", i, "the update did not consume the documented random numbers (subsets resamples of the reference on the epoch's second batch when detect_batch is 1 or 2, none otherwise)")
        o = outs[0]
        # numbers do not depend on the forked decision of this step: check them first
        if tb != o["total"]:
            fail("hdm-total-batches", i, f"total_batches={tb}, expected {o['total']}")
        if det.batches_since_reset != o["k"]:
            fail("hdm-batches-since-reset", i, f"batches_since_reset={det.batches_since_reset}, expected {o['k']}")
        if not close(det.current_distance, o["d"], 1e-9, 1e-9) or not close(det.distances.get(tb), o["d"], 1e-9, 1e-9):
            fail("hdm-distance", i, f"current_distance={det.current_distance}, distances[{tb}]={det.distances.get(tb)}; reference computation gives {o['d']} (per feature {o['fd']})")
        if o["eps"] is None:
            if tb in det.epsilon_values:
                fail("hdm-epsilon", i, f"epsilon_values[{tb}]={det.epsilon_values[tb]} on the first batch of an epoch")
        elif not close(det.epsilon_values.get(tb), o["eps"], 1e-9, 1e-9):
            fail("hdm-epsilon", i, f"epsilon_values[{tb}]={det.epsilon_values.get(tb)}, |d_t - d_(t-1)| = {o['eps']}")
        if o["beta"] is None:
            if tb in det.thresholds:
                fail("hdm-threshold", i, f"thresholds[{tb}]={det.thresholds[tb]} before the detect_batch-th test batch")
        else:
            if o["e0"] is not None:
                if not close(det.thresholds.get(tb), o["e0"], 1e-9, 1e-9) or not o["e0"] >= 0:
                    fail("hdm-bootstrap-epsilon", i, f"thresholds[{tb}]={det.thresholds.get(tb)} but the bootstrap estimate replicated under the same seed is {o['e0']}")
            if not close(det.thresholds.get(tb), o["beta"], 1e-9, 1e-9) or not close(det.beta, o["beta"], 1e-9, 1e-9):
                fail("hdm-threshold", i, f"thresholds[{tb}]={det.thresholds.get(tb)} beta={getattr(det, 'beta', None)}; documented threshold is {o['beta']} (epsilon {o['eps']})")
        if verdict == "mismatch":
            fail("hdm-decision", i, f"state={det.drift_state!r} but epsilon={o['eps']} beta={o['beta']} (batch {o['k']} of the epoch, detect_batch={p['detect_batch']})")
        if verdict == "overflow":
            ctx.label("truncated-ambiguous")
            break
        o = outs[0]
        if det.reference_n != o["ref_n"]:
            fail("hdm-reference-size", i, f"reference_n={det.reference_n}, expected {o['ref_n']} ({'replaced' if o['drift'] else 'appended'})")
        if o["feps"] is not None and tb > 1:
            fe = getattr(det, "feature_epsilons", None)
            if fe is None or len(fe) != len(o["feps"]) or not all(close(a, b, 1e-9, 1e-9) for a, b in zip(fe, o["feps"])):
                fail("hdm-feature-epsilons", i, f"feature_epsilons={fe}, expected {o['feps']}")
        if o["drift"] and ncols > 1:
            fi = getattr(det, "feature_info", None)
            ok = fi is not None and all(close(a, b, 1e-9, 1e-9) for a, b in zip(fi.get("Feature_Distances", []), o["fd"])) and len(fi.get("Feature_Distances", [])) == ncols
            ok = ok and all(close(a, b, 1e-9, 1e-9) for a, b in zip(fi.get("Epsilons", []), o["feps"])) and len(fi.get("Epsilons", [])) == ncols
            if ok:
                idx = [v for k_, v in fi.items() if k_.startswith("Significant_drift_in_variable")]
                mx = max(o["feps"])
                ok = len(idx) == 1 and 0 <= int(idx[0]) < ncols and o["feps"][int(idx[0])] >= mx - 1e-9
            if not ok:
                fail("hdm-feature-info", i, f"feature_info={fi}; per-feature distances {o['fd']}, their changes {o['feps']}")
            multi_feature_drift = True
    m = fk.states[0]
    ctx.label(name, f"detect_batch={p['detect_batch']}", f"div={p['divergence']}", f"stat={p['statistic']}", f"drifts={min(m.ndrift, 3)}", f"container={container}", f"flavour={case.get('flavour', 'grid')}")
    if multi_feature_drift:
        ctx.label("multi-feature-drift")
    if fk.forked_steps:
        ctx.label("met-tie")
    if m.ndrift >= 2 and m.thr_in_later_epoch:
        ctx.label("nontrivial")


def strat_history(tier):
    @st.composite
    def s(draw):
        name = draw(st.sampled_from(["HDDDM", "HDDDM", "CDBD"]))
        spec = cat.SPECS[name]
        p = draw(spec.params())
        ncols = draw(spec.ncols())
        flavour = draw(st.sampled_from(["grid", "grid", "grid", "int-reference", "codes"]))
        container = draw(st.sampled_from(["nd", "nd", "df"]))
        if flavour == "codes":
            # integer codes 0..9 with both ends present in every batch (the common range never moves) and
            # strongly varying batch sizes (the bin count floor(sqrt(n)) of a drifted batch may equal the old one)
            nb = draw(st.integers(4, 10))
            items = []
            for i in range(nb):
                n = draw(st.sampled_from([5, 8, 20, 50, 60, 80, 150, 200]))
                hi = draw(st.sampled_from([3, 6, 9]))
                rows = draw(st.lists(st.lists(st.integers(0, hi).map(float), min_size=ncols, max_size=ncols), min_size=n, max_size=n))
                rows[0] = [0.0] * ncols
                rows[1] = [9.0] * ncols
                items.append(rows)
            container = draw(st.sampled_from(["nd", "nd_int", "df", "df_int"]))
        else:
            items = draw(vs.batch_history(ncols, n_min=4, n_max=15, rows_min=4, rows_max=60, spread=2, shift=4, p_shift=0.4))
            if flavour == "int-reference":
                items[0] = [[float(round(v)) for v in r] for r in items[0]]
                container = draw(st.sampled_from(["nd_int", "df_int"]))  # integer-typed reference, float batches afterwards
        return {"det": name, "params": p, "items": items, "seed_base": draw(vs.seed_base), "container": container, "flavour": flavour}

    return s()


# ------------------------------------------------------------------ axioms
def check_axioms(case, ctx):
    from menelaus.data_drift import CDBD, HDDDM

    A, B, div = case["A"], case["B"], case["div"]
    ncols = len(A[0])
    cls = HDDDM if (ncols > 1 or case.get("cls") == "HDDDM") else CDBD

    def dist(ref, batch):
        with sut(detector=cls.__name__):
            d = cls(divergence=div, detect_batch=3)
            d.set_reference(np.array(ref, dtype=float))
            d.update(np.array(batch, dtype=float))
            return float(d.current_distance)

    bound = math.sqrt(2) if div == "H" else math.sqrt(math.log(2))
    d_id = dist(A, A)
    if abs(d_id) > 1e-9:
        raise Violation("hdm-identity", f"{cls.__name__}({div}): distance of a batch identical to the reference is {d_id}", detector=cls.__name__)
    perm = case.get("perm")
    if perm:
        A2 = [A[j % len(A)] for j in perm]
        if len(A2) == len(A) and sorted(map(tuple, A2)) == sorted(map(tuple, A)):
            d_p = dist(A, A2)
            if abs(d_p) > 1e-9:
                raise Violation("hdm-identity", f"distance to a reordered copy of the reference is {d_p}", detector=cls.__name__)
    d_ab = dist(A, B)
    if not (-1e-12 <= d_ab <= bound + 1e-9):
        raise Violation("hdm-bound", f"{cls.__name__}({div}): distance {d_ab} outside [0, {bound}]", detector=cls.__name__)
    if len(A) == len(B):
        d_ba = dist(B, A)
        if abs(d_ab - d_ba) > 1e-9:
            raise Violation("hdm-symmetry", f"{cls.__name__}({div}): d(A,B)={d_ab} but d(B,A)={d_ba} for equal sizes {len(A)}", detector=cls.__name__)
        ctx.label("symmetry-checked")
    if d_ab > 0.9 * bound:
        ctx.label("near-bound")
    ctx.label(f"div={div}")


def strat_axioms(tier):
    @st.composite
    def s(draw):
        ncols = draw(st.integers(1, 3))
        n1 = draw(st.integers(4, 40))
        n2 = n1 if draw(st.booleans()) else draw(st.integers(2, 40))
        A = draw(vs.batch(ncols, n1, n1, None, 2, 8))
        loc = [draw(st.sampled_from([0, 0, 3, 40])) for _ in range(ncols)]
        B = draw(vs.batch(ncols, n2, n2, loc, draw(st.sampled_from([1, 2, 4])), 8))
        return {"A": A, "B": B, "div": draw(st.sampled_from(["H", "KL"])), "cls": draw(st.sampled_from(["HDDDM", "CDBD"])), "perm": draw(st.permutations(list(range(n1))))}

    return s()


def _desc(c):
    return {"det": c["det"], "params": c["params"], "batch_sizes": [len(b) for b in c["items"]], "ncols": len(c["items"][0][0]), "container": c.get("container")}


PROPERTY = {
    "id": "C07",
    "level": "exploration",
    "rule": (
        "history: HDDDM (1-3 features) / CDBD (1 feature): reference + 3-14 test batches of 4-60 rows with location/scale shifts x divergence "
        "{Hellinger, JS ('KL'), user function (total variation)} x detect_batch 1..3 x statistic x significance x subsets 2..6, ndarray or "
        "DataFrame inputs; flavours: grid values, integer-typed reference followed by float batches, integer codes 0..9 with a fixed common range and batch sizes 5..200. The reference model recomputes bins, aligned histograms, per-feature and averaged distances, epsilon, the adaptive "
        "threshold (incl. the bootstrap estimate replicated with pandas' sample under the same numpy seed), the decision, reference "
        "growth/replacement (incl. the positional split for detect_batch=1), feature_epsilons and feature_info; all public records are compared "
        "after every update (1e-9). Non-trivial = >= 2 drifts and a threshold computed in the second or a later epoch. "
        "axioms: distance 0 for an identical / reordered batch, symmetry for equal sizes, bounds sqrt(2) / sqrt(ln 2)."
    ),
    "assumptions": [
        "batches have >= 4 rows so that the halves of a detect_batch=1 split are valid batches",
        "numpy.histogram, scipy.stats.t and pandas.DataFrame.sample are trusted libraries",
        "epsilon within 1e-9 (relative) of beta admits both decisions",
    ],
    "subchecks": [
        SubCheck("history", check_history, strategy=strat_history, nontrivial=lambda L: "nontrivial" in L, quick=600, thorough=30000, shards_quick=16, describe=_desc),
        SubCheck("axioms", check_axioms, strategy=strat_axioms, nontrivial=lambda L: "symmetry-checked" in L, quick=400, thorough=24000, shards_quick=4),
    ],
}
