"""C16 - only agreement between label and prediction matters; unused arguments are unused."""
import numpy as np
import pandas as pd
from hypothesis import strategies as st

from vlib import catalogue as cat
from vlib import strategies as vs
from vlib.props.c14 import SMALL
from vlib.runner import SubCheck, Violation, sut

ENCODINGS = {
    "int": [0, 1, 2],
    "neg": [-5, -1, -7],
    "big": [10**6, 3, 42],
    "float": [0.5, 2.25, -1.0],
    "str": ["a", "b", "c"],
    "str2": ["yes", "no", ""],
    "bool": [False, True, None],
    "npint": "npint",
    # labels that collide when truncated / cast to a narrower type seen earlier in the stream
    "prefix": ["c1", "c10", "c11"],
    "frac": [0.25, 0.75, 0.5],
    "wide": ["x", "xy", "xyz"],
    # distinct values that a tolerant / narrowing comparison would confuse
    "nearfloat": [0.3, 0.1 + 0.2, 0.75],
    "bigfloat": [1e15, 1e15 + 1, 1e15 + 2],
    "bigint": [2**53, 2**53 + 1, -(2**62)],
    "narrowint": "narrowint",
}
WRAPS = ["scalar", "list", "a0", "a1", "a2", "series"]


def encode(k, enc):
    if enc == "npint":
        return np.int64([3, 9, 27][k])
    if enc == "narrowint":  # a narrow numpy integer first, wider python ints later
        return [np.int8(5), 261, 70005][k]
    return ENCODINGS[enc][k]


def wrap(v, w):
    if w == "scalar":
        return v
    if w == "list":
        return [v]
    if w == "a0":
        return np.array(v)
    if w == "a1":
        return np.array([v])
    if w == "a2":
        return np.array([[v]])
    if w == "series":
        return pd.Series([v])
    raise AssertionError(w)


def obs_of(det):
    return cat.observe(det)


# ---------------------------------------------------------------- relabeling
def check_relabel(case, ctx):
    name = case["det"]
    spec = cat.SPECS[name]
    p = case["params"]
    pairs = case["pairs"]  # classes in {0,1,2}
    enc = case["enc"]
    encs = case.get("encs") or [enc] * len(pairs)  # per-sample label map (each one injective)
    with sut(detector=name):
        canon = spec.make(p)
        var = spec.make(p)
    ndrift = nwarn = 0
    for i, (yt, yp) in enumerate(pairs):
        agree = yt == yp
        vt, vp = yt, yp
        sub = case["subst"][i]
        if sub == 1:  # agreement-preserving substitution: another pair with the same agreement
            vt, vp = ((yt + 1) % 3, (yp + 1) % 3)
        elif sub == 2:
            vt, vp = (yp, yt)
        enc_i = encs[i]
        if enc_i == "bool" and max(vt, vp) > 1:
            enc_i = "int"
        a = wrap(encode(vt, enc_i), case["wraps"][i][0])
        b = wrap(encode(vp, enc_i), case["wraps"][i][1])
        with sut(detector=name):
            canon.update(1, 1 if agree else 0)
        with sut(detector=name, variant=enc):
            var.update(a, b)
        oc, ov = obs_of(canon), obs_of(var)
        if oc != ov:
            keys = sorted(k for k in set(oc) | set(ov) if oc.get(k) != ov.get(k))
            raise Violation(
                "depends-on-label-encoding",
                f"{name}({p}) sample {i}: labels {a!r}/{b!r} (agreement {agree}) give {dict((k, ov.get(k)) for k in keys)} but the canonical 0/1 run gives {dict((k, oc.get(k)) for k in keys)}",
                detector=name,
                encoding=enc,
            )
        ndrift += oc["state"] == "drift"
        nwarn += oc["state"] == "warning"
    used = {c for pr in pairs for c in pr}
    ctx.label(name, "enc=" + enc)
    if len(set(encs)) > 1:
        ctx.label("encoding-changes-along-stream")
    if len(used) >= 3:
        ctx.label("3-classes")
    if ndrift and nwarn:
        ctx.label("warn+drift")
    if (len(used) >= 3 or enc in ("str", "str2", "bool", "prefix", "wide")) and ndrift and (nwarn or name == "ADWINAccuracy"):
        ctx.label("nontrivial")


def strat_relabel(tier):
    @st.composite
    def s(draw):
        name = draw(st.sampled_from(["DDM", "EDDM", "STEPD", "ADWINAccuracy"]))
        p = draw(SMALL[name])
        base = draw(vs.pair_seq(min_segments=2, max_segments=5, seg_min=4, seg_max=30, max_total=100))
        three = draw(st.booleans())
        enc = draw(st.sampled_from([e for e in ENCODINGS if three is False or e != "bool"]))
        pairs = []
        for yt, yp in base:
            if three and draw(st.integers(0, 3)) == 0:
                c = 2
                pairs.append([c, c] if yt == yp else [c, yp if yp != c else 0])
            else:
                pairs.append([yt, yp])
        n = len(pairs)
        wraps = [[draw(st.sampled_from(WRAPS)), draw(st.sampled_from(WRAPS))] for _ in range(n)]
        subst = [draw(st.sampled_from([0, 0, 0, 1, 2])) for _ in range(n)]
        if enc == "bool":
            subst = [0 if s_ == 1 else s_ for s_ in subst]
        out = {"det": name, "params": p, "pairs": pairs, "enc": enc, "wraps": wraps, "subst": subst}
        if draw(st.booleans()):
            # the label map itself changes along the stream (every map is injective, agreement is preserved)
            others = [e for e in ENCODINGS if e != "bool" or not three]
            encs = []
            cur = enc
            for _ in range(n):
                if draw(st.integers(0, 5)) == 0:
                    cur = draw(st.sampled_from(others))
                encs.append(cur)
            out["encs"] = encs
        return out

    return s()


# ---------------------------------------------------------------------- LFR
def check_lfr_cells(case, ctx):
    from menelaus.concept_drift import LinearFourRates

    p = case["params"]
    base = case["seed_base"]
    with sut(detector="LinearFourRates"):
        canon = LinearFourRates(**p)
        var = LinearFourRates(**p)
    ndrift = 0
    for i, (yt, yp) in enumerate(case["pairs"]):
        kinds = case["kinds"][i]
        a = wrap(bool(yt) if kinds[0] == "bool" else (np.int64(yt) if kinds[0] == "np" else yt), case["wraps"][i][0])
        b = wrap(bool(yp) if kinds[1] == "bool" else (np.int64(yp) if kinds[1] == "np" else yp), case["wraps"][i][1])
        with sut(detector="LinearFourRates"):
            np.random.seed(base + i)
            canon.update(yt, yp)
            np.random.seed(base + i)
            var.update(a, b)
        oc, ov = obs_of(canon), obs_of(var)
        if oc != ov:
            raise Violation(
                "depends-on-label-encoding",
                f"LFR({p}) sample {i}: ({a!r}, {b!r}) is the same confusion cell as ({yt}, {yp}) but outputs differ",
                detector="LinearFourRates",
            )
        ndrift += oc["state"] == "drift"
    ctx.label("LinearFourRates")
    if ndrift:
        ctx.label("nontrivial")


def strat_lfr(tier):
    @st.composite
    def s(draw):
        p = draw(SMALL["LinearFourRates"])
        pairs = draw(vs.pair_seq(min_segments=2, max_segments=4, seg_min=4, seg_max=25, max_total=70))
        n = len(pairs)
        kk = st.sampled_from(["int", "bool", "np"])
        return {
            "params": p,
            "pairs": pairs,
            "kinds": [[draw(kk), draw(kk)] for _ in range(n)],
            "wraps": [[draw(st.sampled_from(WRAPS)), draw(st.sampled_from(WRAPS))] for _ in range(n)],
            "seed_base": draw(vs.seed_base),
        }

    return s()


# ---------------------------------------------------------- unused arguments
JUNK = ["none", "str", "nan", "wrongshape", "list", "obj", "df"]


def junk(kind, i):
    if kind == "none":
        return None
    if kind == "str":
        return "junk-%d" % i
    if kind == "nan":
        return float("nan")
    if kind == "wrongshape":
        return np.arange(7 + i % 3, dtype=float).reshape(1, -1)
    if kind == "list":
        return [[1, 2, 3], [4, 5, 6]]
    if kind == "obj":
        return object()
    if kind == "df":
        return pd.DataFrame({"q": [1.0, 2.0, 3.0], "r": ["a", "b", "c"]})
    raise AssertionError(kind)


def check_unused(case, ctx):
    name = case["det"]
    spec = cat.SPECS[name]
    p = case["params"]
    base = case["seed_base"]
    with sut(detector=name):
        canon = spec.make(p)
        var = spec.make(p)
    ndrift = 0
    for i, item in enumerate(case["items"]):
        j1, j2 = case["junk"][i]
        if name == "NNDVI" and i > 0 and not cat.nndvi_domain_ok(canon, np.array(item, dtype=float)):
            break
        errs = []
        for det, use_junk in ((canon, False), (var, True)):
            try:
                with sut(detector=name, allow=(ValueError,), junk=f"{j1}/{j2}" if use_junk else "none"):
                    np.random.seed(base + i)
                    if spec.kind == "y":
                        if use_junk:
                            det.update(item[0], item[1], X=junk(j1, i))
                        else:
                            det.update(item[0], item[1])
                    else:
                        X = cat.as_input(spec, item)
                        kw = {"y_true": junk(j1, i), "y_pred": junk(j2, i)} if use_junk else {}
                        if spec.family == "batch" and i == 0:
                            det.set_reference(X, **kw)
                        else:
                            det.update(X, **kw)
                errs.append(None)
            except ValueError as e:
                errs.append(str(e))
        if errs[0] is not None:
            if errs[1] is None:
                raise Violation("unused-argument-influences", f"{name}: canonical call raised {errs[0]!r} but the call with junk unused arguments did not", detector=name)
            break
        if errs[1] is not None:
            raise Violation(
                "unused-argument-validated",
                f"{name}({p}) call {i}: junk in the documented-unused argument(s) ({j1}, {j2}) raised ValueError: {errs[1]}",
                detector=name,
            )
        oc, ov = obs_of(canon), obs_of(var)
        if oc != ov:
            raise Violation("unused-argument-influences", f"{name}({p}) call {i}: outputs differ when the unused arguments carry ({j1}, {j2})", detector=name)
        ndrift += oc["state"] == "drift"
    ctx.label(name)
    if ndrift:
        ctx.label("drift")
    if any(a != "none" or b != "none" for a, b in case["junk"]):
        ctx.label("nontrivial")


def strat_unused(tier):
    @st.composite
    def s(draw):
        name = draw(st.sampled_from(cat.ALL14))
        spec = cat.SPECS[name]
        p = draw(SMALL[name])
        ncols = draw(spec.ncols())
        if spec.kind == "y":
            items = draw(vs.pair_seq(min_segments=1, max_segments=3, seg_min=3, seg_max=12, max_total=30))
        elif spec.family == "stream":
            rows = draw(vs.row_stream(ncols, min_segments=1, max_segments=3, seg_min=3, seg_max=12, max_total=30 if name == "PCACD" else 20, spread=2, shift=6))
            items = cat._jitter(rows) if name == "PCACD" else rows
        else:
            items = draw(vs.batch_history(ncols, n_min=3, n_max=7, rows_min=6, rows_max=14, spread=2, shift=4, p_shift=0.5))
        jk = st.sampled_from(JUNK)
        return {"det": name, "params": p, "ncols": ncols, "items": items, "junk": [[draw(jk), draw(jk)] for _ in items], "seed_base": draw(vs.seed_base)}

    return s()


PROPERTY = {
    "id": "C16",
    "level": "exploration",
    "rule": (
        "relabel: DDM, EDDM, STEPD, ADWINAccuracy on outcome sequences over up to three classes; every sample is re-encoded through an "
        "injective label map (ints, negative / large ints, numpy ints, floats, strings incl. the empty string, bools), optionally replaced by "
        "another pair with the same agreement, and each label is wrapped as scalar / list / 0-d, 1-d, 2-d array / Series; the full "
        "observation trace must equal the canonical run fed (1, 1 if agree else 0). Non-trivial = >= 3 classes or non-numeric labels on a "
        "sequence with a warning and a drift. lfr_cells: ints / bools / numpy ints in every wrapper give the same outputs under the same "
        "seeds. unused_args: all 14 detectors with junk (None, strings, NaN, wrong-shape arrays, nested lists, arbitrary objects, "
        "DataFrames) in the arguments documented as unused (X for concept-drift detectors; y_true / y_pred for change and data-drift "
        "detectors, in update and set_reference): must be accepted and leave every output unchanged."
    ),
    "assumptions": ["LFR labels are restricted to what it accepts as matrix indices (ints, bools)"],
    "subchecks": [
        SubCheck("relabel", check_relabel, strategy=strat_relabel, nontrivial=lambda L: "nontrivial" in L, quick=900, thorough=60000, shards_quick=8),
        SubCheck("lfr_cells", check_lfr_cells, strategy=strat_lfr, nontrivial=lambda L: "nontrivial" in L, quick=150, thorough=9000, shards_quick=4),
        SubCheck("unused_args", check_unused, strategy=strat_unused, nontrivial=lambda L: "nontrivial" in L, quick=600, thorough=36000, shards_quick=8,
                 describe=lambda c: {"det": c["det"], "params": c["params"], "junk": c["junk"][:6], "n_calls": len(c["items"])}),
    ],
}
