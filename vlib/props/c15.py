"""C15 - detectors and injectors never modify or keep live references to caller data."""
import copy

import numpy as np
import pandas as pd
from hypothesis import strategies as st

from vlib import catalogue as cat
from vlib import strategies as vs
from vlib.props.c14 import NAMES, SMALL
from vlib.runner import SubCheck, Violation, sut

X_KINDS = ["ndC", "ndF", "view", "readonly", "df", "df_mixed", "list"]
Y_KINDS = ["scalar", "nd1", "list", "series"]


def make_x(arr, kind):
    arr = np.array(arr, dtype=float)
    if kind == "ndC":
        return np.array(arr, order="C")
    if kind == "ndF":
        return np.array(arr, order="F")
    if kind == "view":
        big = np.zeros((arr.shape[0] * 2, arr.shape[1] * 2))
        big[::2, ::2] = arr
        return big[::2, ::2]
    if kind == "readonly":
        a = np.array(arr)
        a.setflags(write=False)
        return a
    if kind == "df":
        return pd.DataFrame(np.array(arr), columns=NAMES[: arr.shape[1]])
    if kind == "df_mixed":
        df = pd.DataFrame({NAMES[j]: (arr[:, j].astype("float32") if j % 2 else arr[:, j].copy()) for j in range(arr.shape[1])})
        return df
    if kind == "list":
        return arr.tolist()
    if kind == "series":
        return pd.Series(arr.ravel())
    if kind == "nd1":  # 1-D array: one row for streaming detectors, one column for (univariate) batch detectors
        return np.array(arr.ravel())
    if kind == "nd1_view":
        big = np.zeros(arr.size * 2)
        big[::2] = arr.ravel()
        return big[::2]
    raise AssertionError(kind)


def make_y(v, kind):
    if kind == "scalar":
        return v
    if kind == "nd1":
        return np.array([v])
    if kind == "list":
        return [v]
    if kind == "series":
        return pd.Series([v])
    raise AssertionError(kind)


def same(a, b):
    if isinstance(a, pd.DataFrame):
        return isinstance(b, pd.DataFrame) and a.equals(b) and list(a.columns) == list(b.columns) and list(a.index) == list(b.index) and list(a.dtypes) == list(b.dtypes)
    if isinstance(a, pd.Series):
        return isinstance(b, pd.Series) and a.equals(b) and list(a.index) == list(b.index) and a.dtype == b.dtype
    if isinstance(a, np.ndarray):
        return isinstance(b, np.ndarray) and a.dtype == b.dtype and a.shape == b.shape and np.array_equal(a, b)
    if isinstance(a, dict):
        return isinstance(b, dict) and list(a.keys()) == list(b.keys()) and all(same(a[k], b[k]) for k in a)
    return type(a) is type(b) and a == b


def scribble(o):
    """caller-side overwrite, cell by cell and in place"""
    if isinstance(o, pd.DataFrame):
        for i in range(o.shape[0]):
            for j in range(o.shape[1]):
                o.iloc[i, j] = 1e6 + i + 10 * j
        return True
    if isinstance(o, pd.Series):
        for i in range(len(o)):
            o.iloc[i] = 1e6 + i
        return True
    if isinstance(o, np.ndarray):
        if not o.flags.writeable:
            return False
        if o.ndim == 2:
            for i in range(o.shape[0]):
                for j in range(o.shape[1]):
                    o[i, j] = 1e6 + i + 10 * j
        else:
            o[...] = 1e6
        return True
    if isinstance(o, list):
        for i in range(len(o)):
            if isinstance(o[i], list):
                for j in range(len(o[i])):
                    o[i][j] = 1e6 + i + 10 * j
            else:
                o[i] = 1e6 + i
        return True
    return False


def run(spec, case, overwrite, ctx=None):
    name = case["det"]
    with sut(detector=name):
        det = spec.make(case["params"])
    items, kinds = case["items"], case["kinds"]
    base = case["seed_base"]
    passed = []
    trace = []
    for i, item in enumerate(items):
        if spec.kind == "y":
            objs = [make_y(item[0], kinds[i][0]), make_y(item[1], kinds[i][1])]
        else:
            arr = [item] if spec.family == "stream" else item
            objs = [make_x(arr, kinds[i])]
        snaps = [copy.deepcopy(o) for o in objs]
        if name == "NNDVI" and i > 0 and not cat.nndvi_domain_ok(det, np.array(item, dtype=float)):
            break
        try:
            with sut(detector=name, allow=(ValueError,)):
                np.random.seed(base + i)
                if spec.kind == "y":
                    det.update(objs[0], objs[1])
                elif spec.family == "batch" and i == 0:
                    det.set_reference(objs[0])
                else:
                    det.update(objs[0])
        except ValueError as e:
            if cat.is_domain_end(name, det, e):
                break
            raise Violation("unexpected-exception", f"{name}: ValueError {e} at call {i} (container {kinds[i]})", detector=name)
        for o, s_ in zip(objs, snaps):
            if not same(s_, o):
                raise Violation(
                    "input-mutated", f"{name}({case['params']}): the {kinds[i]} object passed at call {i} was modified by the call", detector=name, aspect="mutation"
                )
        passed.append(objs)
        if overwrite:
            for (after, target) in case["overwrites"]:
                if after == i and target < len(passed):
                    did = any([scribble(o) for o in passed[target]])
                    if ctx is not None and did:
                        ctx.label("overwrite")
                        if target == 0 and spec.family == "batch":
                            ctx.label("overwrite-reference")
                        if any(t.get("state") == "drift" for t in trace[target : target + 1]):
                            ctx.label("overwrite-drifted-batch")
        with sut(detector=name):
            trace.append(cat.observe(det, deep=(name == "PageHinkley")))
    return trace


def check_detector(case, ctx):
    name = case["det"]
    spec = cat.SPECS[name]
    a = run(spec, case, overwrite=True, ctx=ctx)
    b = run(spec, case, overwrite=False)
    for i, (x, y) in enumerate(zip(a, b)):
        if x != y:
            keys = sorted(k for k in set(x) | set(y) if x.get(k) != y.get(k))
            raise Violation(
                "live-reference-to-caller-data",
                f"{name}({case['params']}): outputs after call {i} depend on caller-side overwrites {case['overwrites']} of objects {case['kinds'][: i + 1]}: differing {keys[:4]}: "
                + str({k: (x.get(k), y.get(k)) for k in keys[:2]})[:600],
                detector=name,
                aspect="aliasing",
            )
    if len(a) != len(b):
        raise Violation("live-reference-to-caller-data", f"{name}: runs with and without overwrites have different lengths {len(a)}/{len(b)}", detector=name, aspect="aliasing")
    ks = case["kinds"] if spec.kind != "y" else [k for pair in case["kinds"] for k in pair]
    ctx.label(name)
    if any(k in ("df", "df_mixed") for k in ks):
        ctx.label("dataframe-input")
    ows = [(af, t) for af, t in case["overwrites"] if af < len(a) and t <= af]
    late = any(len(a) - 1 - af >= 2 for af, t in ows)
    if "overwrite" in ctx.labels and late:
        ctx.label("overwrite+2-later-updates")
    if ("overwrite-reference" in ctx.labels or "overwrite-drifted-batch" in ctx.labels or spec.family == "stream") and "overwrite+2-later-updates" in ctx.labels and "dataframe-input" in ctx.labels:
        ctx.label("nontrivial")


def strat_detector(names):
    def strat(tier):
        @st.composite
        def s(draw):
            name = draw(st.sampled_from(names))
            spec = cat.SPECS[name]
            p = draw(SMALL[name])
            ncols = draw(spec.ncols())
            if spec.kind == "y":
                items = draw(vs.pair_seq(min_segments=1, max_segments=3, seg_min=3, seg_max=10, max_total=20))
                kinds = [[draw(st.sampled_from(Y_KINDS)), draw(st.sampled_from(Y_KINDS))] for _ in items]
            elif spec.family == "stream":
                mx = 30 if name == "PCACD" else 20
                rows = draw(vs.row_stream(ncols, min_segments=1, max_segments=3, seg_min=3, seg_max=12, max_total=mx, spread=2, shift=6))
                items = cat._jitter(rows) if name == "PCACD" else rows
                kinds = [draw(st.sampled_from(X_KINDS + ["df", "series", "nd1", "nd1_view"])) for _ in items]
            else:
                items = draw(vs.batch_history(ncols, n_min=4, n_max=9, rows_min=6, rows_max=14, spread=2, shift=4, p_shift=0.5))
                one_d = ["series", "nd1", "nd1", "nd1_view"] if ncols == 1 else []
                kinds = [draw(st.sampled_from(X_KINDS + ["df", "df"] + one_d)) for _ in items]
            n = len(items)
            now = draw(st.lists(st.tuples(st.integers(0, n - 1), st.sampled_from([0, 0, 1, 3])), min_size=1, max_size=6))
            if spec.family == "batch" and draw(st.booleans()):
                now.append((0, draw(st.sampled_from([0, 1, 3]))))  # the reference batch is overwritten
            overwrites = sorted({(min(t + d, n - 1), t) for t, d in now})
            return {"det": name, "params": p, "ncols": ncols, "items": items, "kinds": kinds, "overwrites": [list(o) for o in overwrites], "seed_base": draw(vs.seed_base)}

        return s()

    return strat


# ------------------------------------------------------------- enumerated grid
def enum_alias_grid(tier, shard, nshards):
    """every detector x every applicable input kind x overwrite target (reference / early / middle call) x delay,
    on the fixed deterministic histories of the C14 grid: the finite classes are covered on every run"""
    from vlib.props.c14 import GRID_PARAMS, grid_items

    k = 0
    for name in cat.ALL14:
        spec = cat.SPECS[name]
        ncols = 0 if spec.kind == "y" else (1 if spec.univariate else (3 if name == "PCACD" else 2))
        variants = [ncols] if (spec.kind == "y" or spec.univariate or name == "PCACD") else [1, 2]
        for nc in variants:
            items = grid_items(spec, name, nc)
            L = len(items)
            if spec.kind == "y":
                kinds_list = [[[a, b]] * L for a in Y_KINDS for b in Y_KINDS if a != "scalar" or b != "scalar"]
            else:
                ks = list(X_KINDS)
                if spec.family == "stream" or nc == 1:
                    ks += ["series", "nd1", "nd1_view"]
                kinds_list = [[kk] * L for kk in ks] + [["ndC" if i % 2 else kk for i in range(L)] for kk in ("df", "view")]
            for kinds in kinds_list:
                for target in sorted({0, 1, L // 2, L // 2 + 1}):
                    for delay in (0, 2):
                        if k % nshards == shard:
                            yield {"det": name, "params": GRID_PARAMS[name], "ncols": nc, "items": items, "kinds": kinds, "overwrites": [[min(target + delay, L - 1), target]], "seed_base": 7}
                        k += 1


# ----------------------------------------------------------------- injectors
def inj_data(draw, kind):
    n = draw(st.integers(3, 24))
    nf = draw(st.integers(2, 4))
    ncls = draw(st.integers(1, 3))
    feats = draw(st.lists(st.lists(st.integers(-32, 32).map(lambda k: k / 8), min_size=nf, max_size=nf), min_size=n, max_size=n))
    cls = draw(st.lists(st.integers(0, ncls - 1), min_size=n, max_size=n))
    return {"kind": kind, "feats": feats, "cls": cls}


def build_inj_data(d):
    arr = np.hstack([np.array(d["feats"], dtype=float), np.array(d["cls"], dtype=float).reshape(-1, 1)])
    nf = arr.shape[1] - 1
    if d["kind"] == "nd":
        return arr, list(range(nf)), nf
    names = [f"f{i}" for i in range(nf)] + ["y"]
    return pd.DataFrame(arr, columns=names), names[:nf], "y"


def check_injector(case, ctx):
    from menelaus import injection as inj

    data, fcols, ycol = build_inj_data(case["data"])
    snap = copy.deepcopy(data)
    n = len(case["data"]["cls"])
    a, b = case["window"]
    a, b = min(a, n), min(b, n)
    a, b = min(a, b), max(a, b)
    which = case["which"]
    aux = None
    present = sorted(set(float(c) for c in case["data"]["cls"]))
    classes = {"FeatureShift": inj.FeatureShiftInjector, "FeatureSwap": inj.FeatureSwapInjector, "FeatureCover": inj.FeatureCoverInjector, "LabelSwap": inj.LabelSwapInjector, "LabelJoin": inj.LabelJoinInjector, "BrownianNoise": inj.BrownianNoiseInjector}
    obj = None
    if which in classes:
        with sut(injector=which):
            obj = classes[which]()
        if case.get("warmup"):
            # the object has been used before, on data of the other container kind
            other = dict(case["data"])
            other["kind"] = "df" if case["data"]["kind"] == "nd" else "nd"
            odata, ofcols, oycol = build_inj_data(other)
            try:
                with sut(injector=which):
                    if which == "FeatureShift":
                        obj(odata, 0, n, ofcols[0], 0.5)
                    elif which == "FeatureSwap":
                        obj(odata, 0, n, ofcols[0], ofcols[1])
                    elif which == "FeatureCover":
                        obj(odata, oycol, len(present), random_state=1)
                    elif which == "LabelSwap":
                        obj(odata, 0, n, oycol, 0.0, 1.0)
                    elif which == "LabelJoin":
                        obj(odata, 0, n, oycol, 0.0, 1.0, 5.0)
                    else:
                        obj(odata, 0, n, ofcols[0], 1.5, random_state=1)
            finally:
                ctx.label("warmed-up-object")
    with sut(injector=which):
        if which == "FeatureShift":
            out = obj(data, a, b, fcols[case["c1"] % len(fcols)], 0.5, alpha=0.25)
        elif which == "FeatureSwap":
            out = obj(data, a, b, fcols[case["c1"] % len(fcols)], fcols[case["c2"] % len(fcols)])
        elif which == "FeatureCover":
            out = obj(data, ycol, len(present), random_state=case["seed"])
        elif which == "LabelSwap":
            out = obj(data, a, b, ycol, 0.0, 1.0)
        elif which == "LabelJoin":
            out = obj(data, a, b, ycol, 0.0, 1.0, 5.0)
        elif which == "BrownianNoise":
            out = obj(data, a, b, fcols[case["c1"] % len(fcols)], 1.5, random_state=case["seed"])
        elif which == "LabelProbability":
            if b == a:
                ctx.label("skipped-empty-window")  # empty windows are judged by C20
                return
            aux = {present[0]: 0.5} if len(present) > 1 else {}
            aux0 = copy.deepcopy(aux)
            np.random.seed(case["seed"])
            out = inj.LabelProbabilityInjector()(data, a, b, ycol, aux)
        else:
            if b == a:
                ctx.label("skipped-empty-window")
                return
            aux = {k: 2 for k in present}
            aux0 = copy.deepcopy(aux)
            np.random.seed(case["seed"])
            try:
                out = inj.LabelDirichletInjector()(data, a, b, ycol, aux)
            except ValueError as e:
                if "exceed 1" in str(e):
                    ctx.label("skipped-dirichlet-rounding")  # judged by C20
                    return
                raise
    sig = dict(injector=which)
    if not same(snap, data):
        raise Violation("injector-mutated-input", f"{which}: input {case['data']['kind']} changed by the call (window [{a},{b}))", aspect="mutation", **sig)
    if aux is not None and not same(aux0, aux):
        raise Violation("injector-mutated-argument", f"{which}: the caller's dict argument changed from {aux0} to {aux}", aspect="mutation", **sig)
    if type(out) is not type(data):
        raise Violation("injector-container-type", f"{which}: returned {type(out).__name__} for {type(data).__name__} input", aspect="type", **sig)
    if out is data:
        raise Violation("injector-returns-input", f"{which}: returned the input object itself", aspect="aliasing", **sig)
    ov = out.to_numpy() if isinstance(out, pd.DataFrame) else out
    iv = data.to_numpy() if isinstance(data, pd.DataFrame) else data
    if isinstance(data, pd.DataFrame):
        shares = any(np.shares_memory(out[c].to_numpy(), data[c2].to_numpy()) for c in out.columns for c2 in data.columns)
    else:
        shares = np.shares_memory(ov, iv)
    if shares:
        raise Violation("injector-shares-memory", f"{which}: the returned {type(out).__name__} shares memory with the input", aspect="aliasing", **sig)
    ctx.label(which, case["data"]["kind"])
    if a < b:
        ctx.label("non-empty-window")


def strat_injector(tier):
    @st.composite
    def s(draw):
        kind = draw(st.sampled_from(["nd", "df"]))
        d = inj_data(draw, kind)
        n = len(d["cls"])
        a = draw(st.integers(0, n))
        b = draw(st.integers(a, n))
        return {
            "which": draw(st.sampled_from(["FeatureShift", "FeatureSwap", "FeatureCover", "LabelSwap", "LabelJoin", "BrownianNoise", "LabelProbability", "LabelDirichlet"])),
            "data": d,
            "window": [a, b],
            "c1": draw(st.integers(0, 3)),
            "c2": draw(st.integers(0, 3)),
            "seed": draw(st.integers(0, 10**6)),
            "warmup": draw(st.booleans()),
        }

    return s()


def _desc(c):
    return {"det": c["det"], "params": c["params"], "kinds": c["kinds"], "overwrites": c["overwrites"], "n_calls": len(c["items"])}


PROPERTY = {
    "id": "C15",
    "level": "exploration",
    "rule": (
        "alias_grid: enumerated - every detector x every applicable input kind (the same kind for all calls, or alternating with plain arrays) x "
        "overwrite target (reference / second / middle calls) x delay (right after the call, two calls later) on fixed deterministic histories. "
        "detectors: for each of the 14 Streaming/Batch detectors a short multi-epoch history in which every argument is a fresh object of a "
        "drawn kind (ndarray C / Fortran order / non-contiguous view / read-only, 1-D arrays and 1-D views for univariate input, DataFrame single float block / mixed float32-float64, Series, "
        "list; labels as scalar / array / list / Series) and, after drawn calls (same call, next call, three calls later), the caller "
        "overwrites what it passed cell by cell in place. Oracles: a deep snapshot of every argument equals the argument after the call; "
        "the observation trace with overwrites equals the trace of the same run without overwrites. Non-trivial = DataFrame input, an "
        "overwrite (of the reference / a drifted batch for batch detectors) and >= 2 later updates. injectors: every injector on ndarray and "
        "DataFrame data: input and dict arguments unchanged bit-for-bit, result is a new object of the same container type sharing no memory; in half of the cases the injector object was used before on data of the other container kind."
    ),
    "assumptions": [
        "read-only arrays cannot be overwritten by the caller and only take part in the snapshot check",
        "empty windows / Dirichlet rounding of the resampling injectors are judged by C20, not here",
    ],
    "subchecks": [
        SubCheck("alias_grid", check_detector, enumerate=enum_alias_grid, nontrivial=lambda L: "overwrite+2-later-updates" in L, shards_quick=16, shards_thorough=16, exhaustive=True, describe=_desc),
        SubCheck("stream_x", check_detector, strategy=strat_detector(["ADWIN", "CUSUM", "PageHinkley", "KdqTreeStreaming", "PCACD"]), nontrivial=lambda L: "nontrivial" in L, quick=500, thorough=30000, shards_quick=8, describe=_desc),
        SubCheck("stream_y", check_detector, strategy=strat_detector(["ADWINAccuracy", "DDM", "EDDM", "STEPD", "LinearFourRates"]), nontrivial=lambda L: "overwrite+2-later-updates" in L, quick=200, thorough=12000, shards_quick=4, describe=_desc),
        SubCheck("batch", check_detector, strategy=strat_detector(["KdqTreeBatch", "HDDDM", "CDBD", "NNDVI"]), nontrivial=lambda L: "nontrivial" in L, quick=600, thorough=36000, shards_quick=16, describe=_desc),
        SubCheck("injectors", check_injector, strategy=strat_injector, nontrivial=lambda L: "non-empty-window" in L, quick=800, thorough=45000, shards_quick=4),
    ],
}
