"""C11 - PCA-CD scores each component on aligned supports and alarms via Page-Hinkley."""
import numpy as np
from hypothesis import strategies as st

from vlib.models.pcacd import Degenerate, PcaCdModel
from vlib.runner import SubCheck, Violation, sut
from vlib.tolerant import Forker


def _trim(case, i):
    c = dict(case)
    c["items"] = case["items"][: i + 1]
    return c


def check_pcacd(case, ctx):
    from menelaus.data_drift import PCACD

    p = case["params"]
    items = case["items"]
    with sut(detector="PCACD"):
        det = PCACD(**p)
    model = PcaCdModel(p["window_size"], p["ev_threshold"], p["delta"], p["divergence_metric"], p["sample_period"], p["online_scaling"])
    fk = Forker(model, copier=lambda m: m.clone(), key=lambda m: (m.state, m.building, m.ph.state, float(m.ph.sum), float(m.ph.min), m.n))
    repeat_len = case.get("repeat_len", 0) if case.get("flavour") == "repeat" else 0
    ndrift = 0
    for i, row in enumerate(items):
        X = np.array([row], dtype=float)
        raised = None
        try:
            with sut(detector="PCACD", allow=(ValueError,)):
                det.update(X)
        except ValueError as e:
            raised = e
        obs = {
            "state": det.drift_state,
            "n": det.samples_since_reset,
            "num_pcs": det.num_pcs,
        }
        scores = getattr(det, "_change_score", None)
        try:
            verdict, outs = fk.advance(
                lambda m, ch: m.step(row, ch, hint=(float(scores[-1]) if scores is not None and len(scores) else None)),
                lambda o: raised is None
                and o["state"] == obs["state"]
                and o["n"] == obs["n"]
                and o["num_pcs"] == obs["num_pcs"]
                and (scores is None or (len(scores) == o["nscores"] and (o["score"] is None or abs(float(scores[-1]) - o["score"]) <= 1e-9))),
            )
        except Degenerate as e:
            ctx.label("truncated-degenerate-window")
            break
        if raised is not None:
            raise Violation(
                "unexpected-exception", f"PCACD({p}) sample {i}: {raised!r} although every window has positive spread", detector="PCACD", case=_trim(case, i)
            )
        if verdict == "mismatch":
            o = outs[0]
            kind = "pcacd-score-mismatch" if (o["state"] == obs["state"] and o["n"] == obs["n"] and o["num_pcs"] == obs["num_pcs"]) else "pcacd-decision-mismatch"
            raise Violation(
                kind,
                f"PCACD({p}) sample {i}: implementation state={obs['state']!r} since_reset={obs['n']} num_pcs={obs['num_pcs']} "
                f"scores(len={None if scores is None else len(scores)}, last={None if not scores else float(scores[-1])}); reference {o}",
                detector="PCACD",
                case=_trim(case, i),
            )
        if verdict == "overflow":
            ctx.label("truncated-ambiguous")
            break
        m = fk.states[0]
        o = outs[0]
        if i < repeat_len and p["divergence_metric"] == "intersection" and o["score"] is not None and scores is not None:
            if abs(float(scores[-1])) > 1e-9:
                raise Violation(
                    "pcacd-identical-windows-score",
                    f"PCACD({p}) sample {i}: test window holds the same rows as the reference window but the change score is {float(scores[-1])}",
                    detector="PCACD",
                    case=_trim(case, i),
                )
            ctx.label("repeat-score-checked")
        if m.edge_knife:
            ctx.label("bin-edge-knife")
        if obs["state"] == "drift":
            ndrift += 1
        if m.epoch >= 1 and m.scores_in_epoch >= 1:
            ctx.label("score-in-second-epoch")
    m = fk.states[0]
    if fk.forked_steps:
        ctx.label("met-knife-edge")
    if p["window_size"] >= 50:
        ctx.label("ph-threshold>0")
    if round(p["sample_period"] * p["window_size"]) > 100:
        ctx.label("step-capped-at-100")
    ctx.label(f"metric={p['divergence_metric']}", f"scaling={p['online_scaling']}", f"num_pcs={min(m.num_pcs or 0, 3)}", ("num_pcs>=10" if (m.num_pcs or 0) >= 10 else None), f"drifts={min(ndrift, 2)}")
    if ndrift >= 1 and "score-in-second-epoch" in ctx.labels:
        ctx.label("nontrivial")


@st.composite
def pca_params(draw):
    # windows >= 50 give the inner Page-Hinkley test a positive threshold (round(0.01 * window));
    # window * sample_period > 100 reaches the documented cap of the check period
    w = draw(st.sampled_from([8, 10, 12, 16, 20, 25, 30, 40, 50, 60, 100, 150, 250]))
    sp = draw(st.sampled_from([0.05, 0.1, 0.2, 0.5]))
    if round(sp * w) < 1:
        sp = 0.5
    return {
        "window_size": w,
        "ev_threshold": draw(st.sampled_from([0.5, 0.9, 0.99, 0.999])),
        "delta": draw(st.sampled_from([0.0, 0.01, 0.1])),
        "divergence_metric": draw(st.sampled_from(["kl", "intersection"])),
        "sample_period": sp,
        "online_scaling": draw(st.sampled_from([True, False])),
    }


def strat_pcacd(tier):
    @st.composite
    def s(draw):
        p = draw(pca_params())
        w = p["window_size"]
        d = draw(st.sampled_from([2, 2, 3, 3, 4, 4, 6, 11, 12]))
        if d >= 11:
            p["ev_threshold"] = draw(st.sampled_from([0.99, 0.999]))
            p["window_size"] = w = max(w, 30)
            if round(p["sample_period"] * w) < 1:
                p["sample_period"] = 0.5
        flavour = draw(st.sampled_from(["shifts", "shifts", "shifts", "repeat"]))
        cell = st.integers(-16, 16)
        if flavour == "repeat":
            p["divergence_metric"] = draw(st.sampled_from(["intersection", "intersection", "kl"]))
            mix = draw(st.lists(st.lists(st.integers(-2, 2), min_size=d, max_size=d), min_size=d, max_size=d))
            z = draw(st.lists(st.lists(cell, min_size=d, max_size=d), min_size=w, max_size=w))
            R = [[sum(mix[a][b] * zz[b] for b in range(d)) / 8 + zz[a] / 4 for a in range(d)] for zz in z]
            reps = draw(st.integers(3, 5 if w <= 60 else 3))
            items = R * reps
            repeat_len = len(items)
            tail = draw(st.integers(0, w))
            items = items + [[v + 6 for v in r] for r in R[:tail]]
        else:
            n = draw(st.integers(3 * w, (6 if w <= 60 else 4) * w))
            nseg = draw(st.integers(2, 5))
            bounds = sorted(draw(st.lists(st.integers(w, n - 1), min_size=nseg - 1, max_size=nseg - 1)))
            segs = []
            for _ in range(nseg):
                loc = [draw(st.sampled_from([0, 0, 4, -4, 10])) for _ in range(d)]
                mix = draw(st.lists(st.lists(st.integers(-2, 2), min_size=d, max_size=d), min_size=d, max_size=d))
                sc = draw(st.sampled_from([1, 1, 3]))
                segs.append((loc, mix, sc))
            z = draw(st.lists(st.lists(cell, min_size=d, max_size=d), min_size=n, max_size=n))
            items = []
            for i, zz in enumerate(z):
                k = sum(1 for b in bounds if i >= b)
                loc, mix, sc = segs[k]
                items.append([loc[a] + sc * (sum(mix[a][b] * zz[b] for b in range(d)) / 8 + zz[a] / 4) for a in range(d)])
        out = {"params": p, "items": items, "flavour": flavour}
        if flavour == "repeat":
            out["repeat_len"] = repeat_len
        return out

    return s()


PROPERTY = {
    "id": "C11",
    "level": "exploration",
    "rule": (
        "Hypothesis streams of 3-6 window lengths with 2-12 features (10+ retained components occur): 2-5 segments with their own level, mixing matrix (correlation) and "
        "scale, or the reference window repeated 3-5 times (then a shifted tail) x window_size 8..250 (>= 50: positive inner threshold; 250 x 0.5: check period capped at 100) x ev_threshold {.5,.9,.99,.999} x delta x "
        "metric {kl, intersection} x sample_period (step >= 1) x online_scaling on/off. After every update drift_state, samples_since_reset, "
        "num_pcs and the score history (_change_score, when present; 1e-9) are compared with the reference model (own windows, schedule, "
        "per-component supports and divergences, own Page-Hinkley; the inner test forks at its knife-edge). For repeated-reference streams "
        "under the intersection metric every score must be 0. Non-trivial = a drift and at least one score computed in the following epoch."
    ),
    "assumptions": [
        "windows whose projected scores have zero spread (KDE bandwidth 0) or give a non-finite score are outside the domain (case truncated, counted)",
        "StandardScaler, PCA, KernelDensity and jensenshannon are trusted libraries and used by the model as well",
    ],
    "subchecks": [
        SubCheck(
            "pcacd_model",
            check_pcacd,
            strategy=strat_pcacd,
            nontrivial=lambda L: "nontrivial" in L,
            quick=250,
            thorough=8000,
            shards_quick=16,
            describe=lambda c: {"params": c["params"], "flavour": c["flavour"], "n_items": len(c["items"]), "first_rows": c["items"][:2]},
        )
    ],
}
