"""C09 - kdq-tree detectors alarm exactly when leaf divergence exceeds a bootstrap bound."""
import numpy as np
from hypothesis import strategies as st

from vlib import strategies as vs
from vlib.models.kdq_detectors import KdqBatchModel, KdqStreamModel
from vlib.runner import Decoy, SubCheck, Violation, sut
from vlib.tolerant import Forker


def plot_rows(det):
    df = det.to_plotly_dataframe()
    return [[int(a), int(b), int(c)] for a, b, c in zip(df["depth"], df["cell_count"], df["count_diff"])]


def _trim(case, i):
    c = dict(case)
    c["items"] = case["items"][: i + 1]
    return c


# -------------------------------------------------------------------- batch
def check_batch(case, ctx):
    from menelaus.data_drift import KdqTreeBatch

    p = case["params"]
    items = case["items"]
    base = case["seed_base"]
    with sut(detector="KdqTreeBatch"):
        det = KdqTreeBatch(**p)
    p_other = dict(p)
    p_other["alpha"] = 0.5 if p["alpha"] < 0.3 else 0.01
    # same data, other significance level, updated first: a value cached per reference without its alpha would leak
    decoy = Decoy(lambda: KdqTreeBatch(**p_other), lambda d, X_, first: (d.set_reference(X_) if first else d.update(X_)), every=1)
    decoy_seed = Decoy(lambda: KdqTreeBatch(**p), lambda d, X_, first: (d.set_reference(X_) if first else d.update(X_)), every=1)
    fk = Forker(KdqBatchModel(p["alpha"], p["bootstrap_samples"], p["count_ubound"]), copier=lambda m: m.clone())
    for i, B in enumerate(items):
        X = np.array(B, dtype=float)
        np.random.seed(base + i)
        decoy.step(X.copy(), i == 0 and case.get("use_set_reference", True))
        np.random.seed(base + i + 7919)  # same parameters and data, other random numbers
        decoy_seed.step(X.copy(), i == 0 and case.get("use_set_reference", True))
        with sut(detector="KdqTreeBatch"):
            np.random.seed(base + i)
            if i == 0 and case.get("use_set_reference", True):
                det.set_reference(X)
            else:
                det.update(X)
            obs = det.drift_state
        probe = float(np.random.random())  # generator position after the call = number of random draws consumed

        def stepfn(m, ch):
            np.random.seed(base + i)
            if i == 0 and case.get("use_set_reference", True):
                m.set_reference(X)
                o = {"state": None, "kl": None, "crit": m.crit}
            else:
                o = m.step(X, ch)
            o["probe"] = float(np.random.random())
            return o

        verdict, outs = fk.advance(stepfn, lambda o: o["state"] == obs)
        if verdict == "ok" and all(o["probe"] != probe for o in outs):
            raise Violation(
                "kdq-random-draws",
                f"KdqTreeBatch({p}) batch {i}: the call did not consume the documented random numbers (bootstrap_samples x 2n leaf draws when a reference is installed, none otherwise)",
                detector="KdqTreeBatch",
                case=_trim(case, i),
            )
        if verdict == "mismatch":
            raise Violation(
                "kdq-batch-decision-mismatch",
                f"KdqTreeBatch({p}) batch {i}: implementation state={obs!r}; reference: KL={outs[0]['kl']}, critical={outs[0]['crit']} -> {outs[0]['state']!r}",
                detector="KdqTreeBatch",
                case=_trim(case, i),
            )
        if verdict == "overflow":
            ctx.label("truncated-ambiguous")
            break
        m = fk.states[0]
        with sut(detector="KdqTreeBatch"):
            rows = plot_rows(det)
        if rows != m.rows():
            raise Violation(
                "kdq-public-counts-mismatch",
                f"KdqTreeBatch({p}) batch {i}: to_plotly_dataframe (depth, cell_count, count_diff) = {rows[:12]}..., reference tree {m.rows()[:12]}...",
                detector="KdqTreeBatch",
                case=_trim(case, i),
            )
    m = fk.states[0]
    if fk.forked_steps:
        ctx.label("met-tie")
    ctx.label(f"drifts={min(m.ndrift, 3)}")
    if m.ndrift >= 2:
        ctx.label("drifts>=2")


def strat_batch(tier):
    @st.composite
    def s(draw):
        d = draw(st.integers(1, 3))
        p = {
            "alpha": draw(st.sampled_from([0.01, 0.05, 0.2, 0.4, 0.5])),
            "bootstrap_samples": draw(st.integers(3, 25)),
            "count_ubound": draw(st.integers(1, 8)),
        }
        # values on a dyadic grid or on a one-decimal grid (points on split boundaries are then rounding-sensitive)
        items = draw(vs.batch_history(d, n_min=4, n_max=10, rows_min=10, rows_max=60, spread=2, shift=3, denom=draw(st.sampled_from([16, 16, 10])), p_shift=0.4))
        return {"params": p, "items": items, "seed_base": draw(vs.seed_base), "use_set_reference": draw(st.booleans())}

    return s()


# ---------------------------------------------------------------- streaming
def check_stream(case, ctx):
    from menelaus.data_drift import KdqTreeStreaming

    p = case["params"]
    items = case["items"]
    base = case["seed_base"]
    every = case.get("plot_every", 4)
    with sut(detector="KdqTreeStreaming"):
        det = KdqTreeStreaming(**p)
    p_other = dict(p)
    p_other["alpha"] = 0.5 if p["alpha"] < 0.3 else 0.01
    decoy = Decoy(lambda: KdqTreeStreaming(**p_other), lambda d, X_: d.update(X_), every=1)
    decoy_seed = Decoy(lambda: KdqTreeStreaming(**p), lambda d, X_: d.update(X_), every=1)
    fk = Forker(
        KdqStreamModel(p["window_size"], p["persistence"], p["alpha"], p["bootstrap_samples"], p["count_ubound"]),
        copier=lambda m: m.clone(),
        key=lambda m: (m.state, m.counter, m.seen_exceed, m.seen_gap_after_exceed, m.interrupted_resumed, m.ndrift),
    )
    as_lists = case.get("as_lists", False)
    for i, row in enumerate(items):
        X = np.array([row], dtype=float)
        Xin = [[int(v) if float(v).is_integer() else float(v) for v in row]] if as_lists else X  # same values as a plain list
        np.random.seed(base + i)
        decoy.step(X.copy())
        np.random.seed(base + i + 7919)
        decoy_seed.step(X.copy())
        with sut(detector="KdqTreeStreaming"):
            np.random.seed(base + i)
            det.update(Xin)
            obs = det.drift_state
        probe = float(np.random.random())

        def stepfn(m, ch):
            np.random.seed(base + i)
            o = m.step(X[0], ch)
            o["probe"] = float(np.random.random())
            return o

        verdict, outs = fk.advance(stepfn, lambda o: o["state"] == obs)
        if verdict == "ok" and all(o["probe"] != probe for o in outs):
            raise Violation(
                "kdq-random-draws",
                f"KdqTreeStreaming({p}) sample {i}: the call did not consume the documented random numbers (bootstrap draws only when the reference window completes)",
                detector="KdqTreeStreaming",
                case=_trim(case, i),
            )
        if verdict == "mismatch":
            o = outs[0]
            raise Violation(
                "kdq-stream-decision-mismatch",
                f"KdqTreeStreaming({p}) sample {i}: implementation state={obs!r}; reference: KL={o['kl']}, critical={o['crit']}, "
                f"consecutive exceedances={o['counter']} (needs > {p['persistence'] * p['window_size']}) -> {o['state']!r}",
                detector="KdqTreeStreaming",
                case=_trim(case, i),
            )
        if verdict == "overflow":
            ctx.label("truncated-ambiguous")
            break
        m = fk.states[0]
        if m.root is not None and (i % every == 0 or obs == "drift"):
            with sut(detector="KdqTreeStreaming"):
                rows = plot_rows(det)
            if rows != m.rows():
                raise Violation(
                    "kdq-public-counts-mismatch",
                    f"KdqTreeStreaming({p}) sample {i}: to_plotly_dataframe rows {rows[:10]}..., reference tree {m.rows()[:10]}...",
                    detector="KdqTreeStreaming",
                    case=_trim(case, i),
                )
    m = fk.states[0]
    if fk.forked_steps:
        ctx.label("met-tie")
    ctx.label(f"drifts={min(m.ndrift, 3)}", f"persistence={p['persistence']}")
    if m.interrupted_resumed:
        ctx.label("interrupted-run")
        if m.ndrift >= 1:
            ctx.label("interrupted-run+drift")


@st.composite
def burst_stream(draw, d, w, denom=16):
    nseg = draw(st.integers(4, 14))
    rows = []
    flavour = draw(st.sampled_from(["mixed", "bursty", "bursty"]))
    for s_ in range(nseg):
        if flavour == "bursty":
            # long in-distribution start (reference + test window), then alternate short bursts and stretches
            kind = "base" if s_ % 2 == 0 else "burst"
        else:
            kind = draw(st.sampled_from(["base", "base", "burst", "burst", "shift"]))
        if kind == "base" and flavour == "bursty" and s_ == 0:
            loc = [0] * d
            length = draw(st.integers(2 * w, 3 * w))
        elif kind == "base":
            loc = [0] * d
            length = draw(st.integers(max(1, w // 2), 3 * w))
        elif kind == "burst":
            loc = [draw(st.sampled_from([-6, 6, 12]))] * d
            length = draw(st.integers(1, max(1, w // 2)))
        else:
            loc = [draw(st.sampled_from([-6, 6, 12])) for _ in range(d)]
            length = draw(st.integers(w, 3 * w))
        ks = draw(st.lists(st.lists(st.integers(-2 * denom, 2 * denom), min_size=d, max_size=d), min_size=length, max_size=length))
        rows += [[(loc[j] * denom + k[j]) / denom for j in range(d)] for k in ks]
        if len(rows) >= 10 * w:
            break
    return rows[: 10 * w]


def strat_stream(tier):
    @st.composite
    def s(draw):
        d = draw(st.integers(1, 3))
        w = draw(st.sampled_from([3, 4, 5, 6, 8, 10, 12, 16, 20, 25]))
        hover = draw(st.booleans())
        p = {
            "window_size": w,
            "persistence": draw(st.sampled_from([0.2, 0.5, 1] if hover else [0, 0.05, 0.2, 0.2, 0.5, 0.5, 1])),
            "alpha": draw(st.sampled_from([0.4, 0.5] if hover else [0.01, 0.05, 0.2, 0.4, 0.5])),
            "bootstrap_samples": draw(st.integers(3, 25)),
            "count_ubound": draw(st.integers(1, 4 if hover else 8)),
        }
        if hover:
            # in-distribution data under a loose bound: the divergence of the growing test
            # window crosses the bound in both directions; a late sustained shift forces a drift
            n = draw(st.integers(4 * w, 8 * w))
            shift_at = draw(st.integers(3 * w, n))
            ks = draw(st.lists(st.lists(st.integers(-32, 32), min_size=d, max_size=d), min_size=n, max_size=n))
            items = [[((0 if i < shift_at else 6) * 16 + k[j]) / 16 for j in range(d)] for i, k in enumerate(ks)]
        else:
            items = draw(burst_stream(d, w))
        as_lists = draw(st.integers(0, 3)) == 0
        if as_lists:
            # plain python lists; the first rows of the stream hold integral values (python ints), later ones fractions
            k = draw(st.integers(1, 3))
            items = [[float(round(v)) for v in r] if i < k else r for i, r in enumerate(items)]
        return {"params": p, "items": items, "seed_base": draw(vs.seed_base), "plot_every": draw(st.sampled_from([3, 7])), "as_lists": as_lists}

    return s()


def _desc(c):
    return {"params": c["params"], "n_items": len(c["items"]), "first_item": c["items"][0] if c["items"] else None}


PROPERTY = {
    "id": "C09",
    "level": "exploration",
    "rule": (
        "batch: reference + 3-9 batches of 10-60 rows x 1-3 columns (1/16 grid, location/scale shifts) x alpha x bootstrap_samples 3..25 x "
        "count_ubound 1..8, both reference forms (set_reference / first update); streaming: 4-14 segments (long in-distribution stretches, "
        "short outlier bursts, sustained shifts) x window_size 3..25 x persistence {0,.05,.2,.5,1}. The reference model builds its own tree, "
        "draws the bootstrap bound with the same numpy seed in the documented order and decides per update; drift_state must agree after every "
        "update and to_plotly_dataframe() counts must equal the model's node counts. Non-trivial: batch = >= 2 drifts (reference replaced "
        "twice); streaming = an exceedance run that is interrupted and resumed inside one epoch, plus a drift."
    ),
    "assumptions": [
        "KL within 1e-9 (relative) of the bound admits both outcomes (bootstrapped bound lives on the same discrete support)",
        "cutpoint_proportion_lbound left at the detectors' default",
    ],
    "subchecks": [
        SubCheck("batch", check_batch, strategy=strat_batch, nontrivial=lambda L: "drifts>=2" in L, quick=300, thorough=6000, shards_quick=8, describe=_desc),
        SubCheck("streaming", check_stream, strategy=strat_stream, nontrivial=lambda L: "interrupted-run+drift" in L, quick=560, thorough=9000, shards_quick=16, describe=_desc),
    ],
}
