"""C06 - Linear Four Rates tracks the four rates and tests them against simulated bounds."""
import math

import numpy as np
from hypothesis import strategies as st

from vlib import catalogue as cat
from vlib import strategies as vs
from vlib.models import lfr as lm
from vlib.runner import Decoy, SubCheck, Violation, sut
from vlib.tolerant import Forker


def _trim(case, i):
    c = dict(case)
    c["pairs"] = case["pairs"][: i + 1]
    return c


def check_history(case, ctx):
    from menelaus.concept_drift import LinearFourRates

    p = case["params"]
    base = case["seed_base"]
    use_default_rates = p["rates_tracked"] == lm.RATES
    kw = {k: v for k, v in p.items() if not (k == "rates_tracked" and use_default_rates)}  # default argument when it says the same
    with sut(detector="LinearFourRates"):
        det = LinearFourRates(parallelize=False, **kw)
    decoy = Decoy(lambda: LinearFourRates(parallelize=False, **kw), lambda d, a, b: d.update(a, b), every=1)
    model = lm.LfrModel(p["time_decay_factor"], p["warning_level"], p["detect_level"], p["burn_in"], p["num_mc"], p["subsample"], p["rates_tracked"], p["round_val"])
    fk = Forker(model, copier=lambda m: m.clone())
    ndrift = 0
    for i, (yt, yp) in enumerate(case["pairs"]):
        np.random.seed(base + i + 7919)
        decoy.step(yt, yp)  # same parameters and pairs, other random numbers (a bounds cache shared between objects would leak)
        with sut(detector="LinearFourRates"):
            np.random.seed(base + i)
            det.update(yt, yp)
        obs = (det.drift_state, tuple(cat.norm_recs(det.retraining_recs)), det.samples_since_reset)
        all_states = list(det.all_drift_states)
        probe = float(np.random.random())  # generator position after the call = number of Bernoulli draws consumed

        def stepfn(m, ch):
            np.random.seed(base + i)
            o = m.step(yt, yp, ch)
            o["probe"] = float(np.random.random())
            return o

        verdict, outs = fk.advance(stepfn, lambda o: (o["state"], o["recs"], o["n"]) == obs)
        if verdict == "ok" and all(o["probe"] != probe for o in outs):
            raise Violation(
                "lfr-random-draws",
                f"LFR({p}) sample {i}: the update did not consume the documented random numbers (num_mc x N Bernoulli draws per newly simulated (rate, N) pair, none on a cache hit)",
                detector="LinearFourRates",
                case=_trim(case, i),
            )
        if verdict == "mismatch":
            raise Violation(
                "lfr-mismatch",
                f"LFR({p}) sample {i} (y_true={yt}, y_pred={yp}): implementation (state, recs, since_reset)={obs}; reference admits {sorted({(str(o['state']), str(o['recs']), o['n']) for o in outs})}",
                detector="LinearFourRates",
                case=_trim(case, i),
            )
        if verdict == "overflow":
            ctx.label("truncated-ambiguous")
            break
        if not any(all_states == m.all for m in fk.states):
            raise Violation(
                "lfr-all-drift-states", f"LFR({p}) sample {i}: all_drift_states={all_states[-5:]} (len {len(all_states)}), expected {fk.states[0].all[-5:]} (len {len(fk.states[0].all)})", detector="LinearFourRates", case=_trim(case, i)
            )
        # bounds cache (anchored private state; compared when present)
        bd = getattr(det, "_bounds", None)
        known_layout = False
        try:
            # only the layout of the pinned tree is understood: {rounded rate: {denominator: {lb_warn, ub_warn, lb_detect, ub_detect}}}
            known_layout = isinstance(bd, dict) and all(
                isinstance(dd, dict) and all(isinstance(b_, dict) and {"lb_warn", "ub_warn", "lb_detect", "ub_detect"} <= set(b_) for b_ in dd.values())
                for dd in bd.values()
            )
            if known_layout:
                [(float(r), int(n)) for r, dd in bd.items() for n in dd]
        except Exception:
            known_layout = False
        if not known_layout:
            ctx.label("private-cache-not-inspected")
        if known_layout:
            m = fk.states[0]
            got = {(float(r), int(n)) for r, dd in bd.items() for n in dd}
            if got != set(m.cache):
                raise Violation(
                    "lfr-bounds-cache-keys", f"LFR({p}) sample {i}: cached (rounded rate, denominator) pairs {sorted(got)[:6]}..., expected {sorted(m.cache)[:6]}...", detector="LinearFourRates", case=_trim(case, i)
                )
            for (r, n), (lw, uw, ld, ud) in m.cache.items():
                b = [dd for rr, dd in bd.items() if float(rr) == r][0][n]
                for k_, v in (("lb_warn", lw), ("ub_warn", uw), ("lb_detect", ld), ("ub_detect", ud)):
                    if not abs(float(b[k_]) - v) <= 1e-9:
                        raise Violation(
                            "lfr-bounds-value", f"LFR({p}) sample {i}: bounds for rate~{r}, N={n}: {k_}={b[k_]}, Monte-Carlo quantile under the same seed is {v}", detector="LinearFourRates", case=_trim(case, i)
                        )
        ndrift += obs[0] == "drift"
    m = fk.states[0]
    if fk.forked_steps:
        ctx.label("met-tie")
    ctx.label(f"drifts={min(ndrift, 3)}", f"tracked={len(p['rates_tracked'])}")
    if p["burn_in"] >= 100:
        ctx.label("late-start(denominators>100)")
    if m.cache_hit_after_reset:
        ctx.label("cache-hit-after-reset")
    if ndrift >= 1 and m.cache_hit_after_reset:
        ctx.label("nontrivial")


def strat_history(tier):
    @st.composite
    def s(draw):
        p = draw(cat.SPECS["LinearFourRates"].params())
        p["num_mc"] = draw(st.integers(5, 60))
        if draw(st.booleans()):
            p["rates_tracked"] = draw(st.permutations(p["rates_tracked"]))
        pairs = draw(vs.pair_seq(min_segments=2, max_segments=5, seg_min=8, seg_max=50, max_total=150))
        if draw(st.integers(0, 9)) == 0:
            # late start: the first tested denominators are in the hundreds (long burn-in or sparse sub-sampling)
            p["burn_in"] = draw(st.sampled_from([127, 130, 200, 300]))
            p["subsample"] = draw(st.sampled_from([1, 7, 150]))
            p["num_mc"] = draw(st.integers(5, 10))
            p["time_decay_factor"] = draw(st.sampled_from([0.9, 0.97, 0.99]))
            n = p["burn_in"] + draw(st.integers(5, 40)) + (150 if p["subsample"] == 150 else 0)
            base_pairs = pairs
            pairs = [base_pairs[i % len(base_pairs)] for i in range(n)]
        return {"params": p, "pairs": pairs, "seed_base": draw(vs.seed_base)}

    return s()


# -------------------------------------------------- distribution of the bounds
def check_bounds_distribution(case, ctx):
    """The model's Monte-Carlo quantiles (which the implementation must reproduce under the same
    seed, see check_history) against the exact distribution of the statistic for N <= 12."""
    p, N, eta = case["p"], case["N"], case["eta"]
    mc = case["num_mc"]
    np.random.seed(case["seed"])
    wl, dl = case["warning_level"], case["detect_level"]
    lw, uw, ld, ud = lm.sim_bounds(p, N, eta, wl, dl, mc)
    xs, ps = lm.exact_distribution(p, N, eta)
    cdf = np.cumsum(ps)

    def F(v, strict):
        tot = 0.0
        for x, pr in zip(xs, ps):
            if (x < v - 1e-10) or (not strict and x <= v + 1e-10):
                tot += pr
        return tot

    for name, v, q in (("lb_warn", lw, wl), ("ub_warn", uw, 1 - wl), ("lb_detect", ld, dl), ("ub_detect", ud, 1 - dl)):
        band = 6 * math.sqrt(q * (1 - q) / mc) + 1e-9
        if not (F(v, True) - band <= q <= F(v, False) + band):
            raise Violation(
                "lfr-bounds-distribution",
                f"simulated {name}={v} for p={p}, N={N}, eta={eta}: exact P(R<v)={F(v, True)}, P(R<=v)={F(v, False)} but the level is {q} (band {band})",
                detector="LinearFourRates",
            )
    # and the implementation's private simulator, when it exists, under the same seed
    from menelaus.concept_drift import LinearFourRates

    det = LinearFourRates(time_decay_factor=eta, warning_level=wl, detect_level=dl, num_mc=min(mc, 200))
    got = None
    if hasattr(det, "_sim_bounds"):
        np.random.seed(case["seed"])
        want = lm.sim_bounds(p, N, eta, wl, dl, min(mc, 200))
        np.random.seed(case["seed"])
        try:
            got = det._sim_bounds(p, N)  # private helper of the pinned tree; skipped when its interface differs
            if not (isinstance(got, dict) and {"lb_warn", "ub_warn", "lb_detect", "ub_detect"} <= set(got)):
                got = None
        except Exception:
            got = None
    if got is None:
        ctx.label("private-simulator-not-inspected")
    else:
        for k_, v in zip(("lb_warn", "ub_warn", "lb_detect", "ub_detect"), want):
            if not abs(float(got[k_]) - v) <= 1e-9:
                raise Violation("lfr-bounds-value", f"_sim_bounds(p={p}, N={N}) {k_}={got[k_]}, expected {v} under the same seed", detector="LinearFourRates")
    ctx.label(f"N={N}")
    if N >= 4:
        ctx.label("N>=4")


def strat_bounds(tier):
    return st.fixed_dictionaries(
        {
            "p": st.sampled_from([0.1, 0.25, 0.4, 0.5, 0.6, 0.75, 0.9]),
            "N": st.integers(1, 12),
            "eta": st.sampled_from([0.5, 0.8, 0.9, 0.95]),
            "warning_level": st.sampled_from([0.1, 0.2, 0.3]),
            "detect_level": st.sampled_from([0.01, 0.05, 0.1]),
            "num_mc": st.sampled_from([2000, 4000]),
            "seed": vs.seed_base,
        }
    )


PROPERTY = {
    "id": "C06",
    "level": "exploration",
    "rule": (
        "history: Hypothesis (y_true,y_pred) sequences of 16-150 pairs with segment-wise cell probabilities x time_decay_factor x levels x "
        "burn_in 0..20 x subsample 1..4 x round_val {1,2,4} x every non-empty subset (and order) of tracked rates x num_mc 5..60, "
        "parallelize=False, numpy seeded per call; one case in ten starts testing late (burn_in 127..300 or subsample 150, time_decay_factor up to 0.99), so that the simulated sums have hundreds of terms. The reference model keeps the confusion matrix (pseudo-count 1), updates a tracked rate's "
        "statistic only when the rate changed, simulates / caches bounds like the documentation says (same draws, cache keyed by numpy-rounded "
        "rate and denominator, surviving resets) and derives state, retraining_recs, all_drift_states; the private bounds cache is compared "
        "when present. Non-trivial = >= 1 drift and a cache hit after a reset. bounds_distribution: the simulated quantiles (2000-4000 "
        "replicates) must lie inside a 6-sigma binomial band of the exact distribution obtained by enumerating all 2^N outcomes (N <= 12)."
    ),
    "assumptions": [
        "parallelize=True is outside the domain (thread schedule of the shared RNG is not owned by the harness)",
        "labels are 0/1 ints (LFR indexes its confusion matrix with them)",
        "statistic within 1e-9 of a bound admits both outcomes (statistic and simulated bounds share a discrete support)",
    ],
    "subchecks": [
        SubCheck(
            "history",
            check_history,
            strategy=strat_history,
            nontrivial=lambda L: "nontrivial" in L,
            quick=250,
            thorough=16000,
            shards_quick=16,
            describe=lambda c: {"params": c["params"], "n_pairs": len(c["pairs"]), "first_pairs": c["pairs"][:8]},
        ),
        SubCheck("bounds_distribution", check_bounds_distribution, strategy=strat_bounds, nontrivial=lambda L: "N>=4" in L, quick=320, thorough=16000, shards_quick=8),
    ],
}
