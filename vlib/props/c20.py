"""C20 - drift injectors change only the window and columns they are asked to change."""
import math
from collections import Counter

import numpy as np
import pandas as pd
from hypothesis import strategies as st
from scipy.stats import binom

from vlib.runner import SubCheck, Violation, sut

INJ = ["FeatureShift", "FeatureSwap", "FeatureCover", "LabelSwap", "LabelJoin", "BrownianNoise", "LabelProbability", "LabelDirichlet"]


def cls_value(k, ckind):
    return float(k) if ckind == "int" else "c%d" % k


def build(d):
    """-> (data object, feature column keys, class column key, 2-D object/float array view of the values)"""
    feats = np.array(d["feats"], dtype=float)
    n, nf = feats.shape
    ckind = d["ckind"]
    if ckind == "int":
        arr = np.hstack([feats, np.array(d["cls"], dtype=float).reshape(-1, 1)])
    else:
        arr = np.empty((n, nf + 1), dtype=object)
        arr[:, :nf] = feats
        arr[:, nf] = [cls_value(k, ckind) for k in d["cls"]]
    if d["kind"] == "nd":
        return arr, list(range(nf)), nf
    names = [f"f{i}" for i in range(nf)] + ["y"]
    lab = d.get("labels", "str")
    if lab == "int-permuted":  # integer labels that differ from the positions
        names = [(i * 2 + 1) % (nf + 1) if (nf + 1) % 2 else (i + 1) % (nf + 1) for i in range(nf + 1)]
        if sorted(names) != list(range(nf + 1)):
            names = list(range(nf, -1, -1))
    elif lab == "int-offset":
        names = [10 + i for i in range(nf + 1)]
    if ckind == "int":
        df = pd.DataFrame(arr, columns=names)
    else:
        df = pd.DataFrame({names[j]: feats[:, j] for j in range(nf)})
        df[names[nf]] = [cls_value(k, ckind) for k in d["cls"]]
    return df, names[:nf], names[nf]


def values(x):
    return x.to_numpy() if isinstance(x, pd.DataFrame) else np.asarray(x)


def cells_equal(a, b):
    a = np.asarray(a, dtype=object)
    b = np.asarray(b, dtype=object)
    if a.shape != b.shape:
        return False
    return all(x == y for x, y in zip(a.ravel().tolist(), b.ravel().tolist()))


def window(case, n):
    a, b = case["window"]
    a, b = min(a, n), min(b, n)
    return min(a, b), max(a, b)


def check_frame(case, ctx):
    from menelaus import injection as inj

    d = case["data"]
    data, fcols, ycol = build(d)
    A = values(data).copy()
    n, ncol = A.shape
    nf = ncol - 1
    a, b = window(case, n)
    which = case["which"]
    ckind = d["ckind"]
    c1 = case["c1"] % nf
    c2 = case["c2"] % nf
    k1 = cls_value(case["k1"], ckind)
    k2 = cls_value(case["k2"], ckind)
    k3 = cls_value(case["k3"], ckind)
    sig = dict(injector=which)
    wdesc = f"{which} on {d['kind']} ({n} rows, classes {ckind}) window [{a},{b})"

    def fail(kind, msg):
        raise Violation(kind, f"{wdesc}: {msg}", **sig)

    exp = A.copy()
    expect_cols = list(data.columns) if isinstance(data, pd.DataFrame) else None
    with sut(**sig):
        if which == "FeatureShift":
            sf, alpha = case["shift_factor"], 0.25
            out = inj.FeatureShiftInjector()(data, a, b, fcols[c1], sf, alpha=alpha)
            if b > a:
                exp[a:b, c1] = np.array(A[a:b, c1], dtype=float) + sf * (alpha + float(np.mean(np.array(A[a:b, c1], dtype=float))))
        elif which == "FeatureSwap":
            out = inj.FeatureSwapInjector()(data, a, b, fcols[c1], fcols[c2])
            exp[a:b, [c1, c2]] = A[a:b, [c2, c1]]
        elif which == "LabelSwap":
            out = inj.LabelSwapInjector()(data, a, b, ycol, k1, k2)
            for r in range(a, b):
                if A[r, nf] == k1:
                    exp[r, nf] = k2
                elif A[r, nf] == k2:
                    exp[r, nf] = k1
        elif which == "LabelJoin":
            out = inj.LabelJoinInjector()(data, a, b, ycol, k1, k2, k3)
            for r in range(a, b):
                if A[r, nf] == k1 or A[r, nf] == k2:
                    exp[r, nf] = k3
        elif which == "BrownianNoise":
            x0 = case["x0"]
            out = inj.BrownianNoiseInjector()(data, a, b, fcols[c1], x0, random_state=case["seed"])
        elif which == "FeatureCover":
            groups = Counter(A[:, nf].tolist())
            g = len(groups)
            per = 1 + case["cover_n"] % min(groups.values())
            ss = per * g + (case["cover_extra"] % g)
            out = inj.FeatureCoverInjector()(data, ycol, ss, random_state=case["seed"])
        elif which == "LabelProbability":
            present = sorted(set(A[:, nf].tolist()), key=str)
            cp = {}
            if case["prob_spec"] and len(present) >= 1:
                cp = {present[0]: case["prob_spec"] / 8.0} if len(present) > 1 else ({present[0]: 1.0} if case["prob_spec"] == 8 else {})
            np.random.seed(case["seed"])
            out = inj.LabelProbabilityInjector()(data, a, b, ycol, cp)
        else:
            present = sorted(set(A[:, nf].tolist()), key=str)
            al = {k: [1, 4, 0.5][(i + case["k1"]) % 3] for i, k in enumerate(present)}
            np.random.seed(case["seed"])
            out = inj.LabelDirichletInjector()(data, a, b, ycol, al)
    # ---- container, shape, labels
    if type(out) is not type(data):
        fail("injector-container-type", f"returned {type(out).__name__}")
    O = values(out)
    if which == "FeatureCover":
        if O.shape != (per * g, ncol - 1):
            fail("cover-shape", f"shape {O.shape}, expected {(per * g, ncol - 1)} ({per} per group, {g} groups, sample_size {ss})")
        if expect_cols is not None and list(out.columns) != expect_cols[:-1]:
            fail("injector-columns", f"columns {list(out.columns)}")
        # every output row is an input row of a distinct position (rows traced through their full content + multiplicity)
        avail = Counter((tuple(r[:nf].tolist()), r[nf]) for r in A)
        by_cls = Counter()
        used = Counter()
        rows_by_feat = {}
        for r in A:
            rows_by_feat.setdefault(tuple(r[:nf].tolist()), []).append(r[nf])
        for r in O:
            key = tuple(r.tolist())
            if key not in rows_by_feat:
                fail("cover-row-not-from-input", f"output row {key} is not an input row without the hidden column")
            used[key] += 1
        for key, cnt in used.items():
            if cnt > len(rows_by_feat[key]):
                fail("cover-row-used-twice", f"row {key} appears {cnt}x in the output but {len(rows_by_feat[key])}x in the input")
        if d.get("unique_rows"):
            for r in O:
                by_cls[rows_by_feat[tuple(r.tolist())][0]] += 1
            if any(by_cls[c] != per for c in groups):
                fail("cover-group-sizes", f"rows per group {dict(by_cls)}, expected {per} for each of {list(groups)}")
            ctx.label("cover-groups-traced")
        ctx.label(which, d["kind"], "classes=" + ckind)
        ctx.label("nontrivial" if g >= 2 else "single-group")
        return
    if O.shape != A.shape:
        fail("injector-shape", f"shape {O.shape} for input {A.shape}")
    if expect_cols is not None and list(out.columns) != expect_cols:
        fail("injector-columns", f"columns {list(out.columns)} for input {expect_cols}")
    # ---- frame condition: rows outside the window and untargeted columns unchanged
    if not cells_equal(O[:a], A[:a]) or not cells_equal(O[b:], A[b:]):
        fail("injector-outside-window-changed", "rows outside the window differ from the input")
    if which in ("FeatureShift", "FeatureSwap", "LabelSwap", "LabelJoin"):
        if which == "FeatureShift":
            ok = cells_equal(np.delete(O, c1, axis=1), np.delete(exp, c1, axis=1)) and np.allclose(np.array(O[:, c1], dtype=float), np.array(exp[:, c1], dtype=float), rtol=0, atol=1e-9)
        else:
            ok = cells_equal(O, exp)
        if not ok:
            bad = [(r, c) for r in range(n) for c in range(ncol) if not (O[r, c] == exp[r, c] or (isinstance(exp[r, c], float) and abs(O[r, c] - exp[r, c]) < 1e-9))][:4]
            fail("injector-wrong-effect", f"cells {bad} differ from the documented effect (params c1={c1} c2={c2} k1={k1} k2={k2} k3={k3})")
        if which in ("FeatureSwap", "LabelSwap"):
            with sut(**sig):
                back = inj.FeatureSwapInjector()(out, a, b, fcols[c1], fcols[c2]) if which == "FeatureSwap" else inj.LabelSwapInjector()(out, a, b, ycol, k1, k2)
            if not cells_equal(values(back), A):
                fail("injector-not-involution", "applying the swap twice does not restore the input")
    elif which == "BrownianNoise":
        Df = np.array(O[:, :nf], dtype=float) - np.array(A[:, :nf], dtype=float)
        mask = np.ones_like(Df, dtype=bool)
        mask[a:b, c1] = False
        if np.any(Df[mask] != 0) or not cells_equal(O[:, nf], A[:, nf]):
            fail("injector-outside-window-changed", "cells outside the window / column changed")
        w = Df[a:b, c1]
        if b > a:
            if abs(w[0] - case["x0"]) > 1e-9 or not np.allclose(np.abs(np.diff(w)), 1 / math.sqrt(b - a), rtol=0, atol=1e-9):
                fail("injector-wrong-effect", f"added noise {w.tolist()[:6]} is not a +-1/sqrt(steps) walk starting at x0={case['x0']}")
    else:  # resampling injectors
        win = Counter(tuple(r.tolist()) for r in A[a:b])
        for r in O[a:b]:
            if tuple(r.tolist()) not in win:
                fail("resample-row-not-from-window", f"output row {tuple(r.tolist())} inside the window is not a row of the window")
    ctx.label(which, d["kind"], "classes=" + ckind)
    if d["kind"] == "df":
        ctx.label("labels=" + d.get("labels", "str"))
    if a == b:
        ctx.label("empty-window")
    elif a == 0 and b == n:
        ctx.label("full-window")
    else:
        ctx.label("proper-window")
    ncls = len(set(A[a:b, nf].tolist()))
    if 0 < b - a < n and (ncls >= 2 or which in ("FeatureShift", "FeatureSwap", "BrownianNoise")) and (which != "FeatureSwap" or c1 != c2):
        ctx.label("nontrivial")


@st.composite
def inj_case_data(draw):
    kind = draw(st.sampled_from(["nd", "df"]))
    n = draw(st.integers(3, 40))
    nf = draw(st.integers(2, 5))
    ncls = draw(st.integers(1, 3))
    unique_rows = draw(st.booleans())
    cell = st.integers(-32, 32).map(lambda k: k / 8)
    feats = draw(st.lists(st.lists(cell, min_size=nf, max_size=nf), min_size=n, max_size=n))
    if unique_rows:
        feats = [[float(i)] + r[1:] for i, r in enumerate(feats)]  # first feature = unique id
    cls = draw(st.lists(st.integers(0, ncls - 1), min_size=n, max_size=n))
    return {
        "kind": kind,
        "feats": feats,
        "cls": cls,
        "ckind": draw(st.sampled_from(["int", "int", "str"])),
        "unique_rows": unique_rows,
        "labels": draw(st.sampled_from(["str", "str", "int-permuted", "int-offset"])),
    }


def strat_frame(tier):
    @st.composite
    def s(draw):
        d = draw(inj_case_data())
        n = len(d["cls"])
        wk = draw(st.sampled_from(["any", "any", "empty", "full"]))
        if wk == "empty":
            a = draw(st.integers(0, n))
            b = a
        elif wk == "full":
            a, b = 0, n
        else:
            a = draw(st.integers(0, n))
            b = draw(st.integers(a, n))
        return {
            "which": draw(st.sampled_from(INJ)),
            "data": d,
            "window": [a, b],
            "c1": draw(st.integers(0, 4)),
            "c2": draw(st.integers(0, 4)),
            "k1": draw(st.integers(0, 2)),
            "k2": draw(st.integers(0, 2)),
            "k3": draw(st.integers(0, 5)),
            "shift_factor": draw(st.sampled_from([0.5, -1.0, 2.0])),
            "x0": draw(st.sampled_from([0.0, 1.5, -2.0])),
            "cover_n": draw(st.integers(0, 5)),
            "cover_extra": draw(st.integers(0, 3)),
            "prob_spec": draw(st.integers(0, 8)),
            "seed": draw(st.integers(0, 10**6)),
        }

    return s()


# ------------------------------------------------------ resampling frequencies
def check_frequencies(case, ctx):
    from menelaus import injection as inj

    d = case["data"]
    data, fcols, ycol = build(d)
    A = values(data)
    n, ncol = A.shape
    nf = ncol - 1
    a, b = window(case, n)
    classes_all = sorted(set(A[:, nf].tolist()), key=str)
    in_win = set(A[a:b, nf].tolist())
    if b - a < 2 or set(classes_all) != in_win or len(classes_all) < 2:
        ctx.label("discard-classes-not-all-in-window")
        return
    # requested probabilities on a dyadic grid, sum exactly 1
    eighths = case["eighths"][: len(classes_all) - 1]
    rest = 8 - sum(eighths)
    if rest < 0 or len(eighths) < len(classes_all) - 1:
        ctx.label("discard-probabilities")
        return
    probs = [e / 8.0 for e in eighths] + [rest / 8.0]
    spec = {c: p for c, p in zip(classes_all[:-1], probs[:-1])}  # last class left unspecified -> gets the rest
    if case["specify_all"]:
        spec[classes_all[-1]] = probs[-1]
    K = case["repeats"]
    m = b - a
    counts = Counter()
    for k in range(K):
        np.random.seed(case["seed"] + k)
        with sut(injector="LabelProbability"):
            out = inj.LabelProbabilityInjector()(data, a, b, ycol, dict(spec))
        O = values(out)
        counts.update(O[a:b, nf].tolist())
    N = K * m
    for c, p in zip(classes_all, probs):
        x = counts.get(c, 0)
        lo = binom.cdf(x, N, p)
        hi = binom.sf(x - 1, N, p)
        if min(lo, hi) < 1e-10:
            raise Violation(
                "resample-frequencies",
                f"LabelProbabilityInjector window [{a},{b}) requested {dict(zip(map(str, classes_all), probs))}: class {c!r} drawn {x} times out of {N} (binomial tail {min(lo, hi):.3g})",
                injector="LabelProbability",
            )
    ctx.label("frequencies-tested", f"classes={len(classes_all)}")


def check_dirichlet(case, ctx):
    """LabelDirichletInjector: a class whose concentration is 5000x the others' must receive (nearly) the whole window."""
    from menelaus import injection as inj

    d = case["data"]
    data, fcols, ycol = build(d)
    A = values(data)
    n, ncol = A.shape
    nf = ncol - 1
    a, b = window(case, n)
    classes_all = sorted(set(A[:, nf].tolist()), key=str)
    if b - a < 4 or set(classes_all) != set(A[a:b, nf].tolist()) or len(classes_all) < 2:
        ctx.label("discard-classes-not-all-in-window")
        return
    dom = classes_all[case["dominant"] % len(classes_all)]
    order = [classes_all[i % len(classes_all)] for i in case["order"]]
    keys = []
    for k in order + classes_all:
        if k not in keys:
            keys.append(k)
    alpha = {k: (5000.0 if k == dom else 1.0) for k in keys}  # insertion order drawn, not sorted
    tot = hit = 0
    for r in range(case["repeats"]):
        np.random.seed(case["seed"] + r)
        with sut(injector="LabelDirichlet"):
            out = inj.LabelDirichletInjector()(data, a, b, ycol, dict(alpha))
        O = values(out)
        if not cells_equal(O[:a], A[:a]) or not cells_equal(O[b:], A[b:]):
            raise Violation("injector-outside-window-changed", "LabelDirichletInjector changed rows outside the window", injector="LabelDirichlet")
        col = O[a:b, nf].tolist()
        tot += len(col)
        hit += sum(1 for v in col if v == dom)
    if hit < 0.9 * tot:
        raise Violation(
            "dirichlet-frequencies",
            f"LabelDirichletInjector window [{a},{b}) alpha={ {str(k): v for k, v in alpha.items()} }: class {dom!r} (concentration 5000 vs 1) received {hit} of {tot} resampled rows",
            injector="LabelDirichlet",
        )
    ctx.label("dirichlet-tested")
    if list(alpha.keys()) != sorted(alpha.keys(), key=str):
        ctx.label("unsorted-alpha-keys")


def strat_dirichlet(tier):
    @st.composite
    def s(draw):
        c = draw(strat_frequencies(tier))
        return {"data": c["data"], "window": c["window"], "dominant": draw(st.integers(0, 2)), "order": draw(st.lists(st.integers(0, 2), min_size=0, max_size=3)), "repeats": 6, "seed": c["seed"]}

    return s()


# ---------------------------------------------- one injector instance, several calls
def _call_injector(obj, which, data, fcols, ycol, case, a, b):
    c1 = fcols[case["c1"] % len(fcols)]
    c2 = fcols[case["c2"] % len(fcols)]
    if which == "FeatureShift":
        return obj(data, a, b, c1, 0.5, alpha=0.25)
    if which == "FeatureSwap":
        return obj(data, a, b, c1, c2)
    if which == "LabelSwap":
        return obj(data, a, b, ycol, cls_value(0, case["ckind"]), cls_value(1, case["ckind"]))
    if which == "LabelJoin":
        return obj(data, a, b, ycol, cls_value(0, case["ckind"]), cls_value(1, case["ckind"]), cls_value(2, case["ckind"]))
    if which == "BrownianNoise":
        return obj(data, a, b, c1, 1.5, random_state=case["seed"])
    raise AssertionError(which)


def check_reuse(case, ctx):
    """An injector object that is called several times (other data, other column order / labels / container)
    must return what a fresh object returns for the same call."""
    from menelaus import injection as inj

    cls = {"FeatureShift": inj.FeatureShiftInjector, "FeatureSwap": inj.FeatureSwapInjector, "LabelSwap": inj.LabelSwapInjector, "LabelJoin": inj.LabelJoinInjector, "BrownianNoise": inj.BrownianNoiseInjector}[case["which"]]
    with sut(injector=case["which"]):
        shared = cls()
    for k, d in enumerate(case["datasets"]):
        data, fcols, ycol = build(d)
        order = d.get("col_order")
        if order and isinstance(data, pd.DataFrame):
            cols = list(data.columns)
            data = data[[cols[i] for i in order if i < len(cols)] + [c for j, c in enumerate(cols) if j not in order]]
        n = len(d["cls"])
        a, b = window({"window": d["window"]}, n)
        sub = dict(case)
        sub["ckind"] = d["ckind"]
        with sut(injector=case["which"]):
            got = _call_injector(shared, case["which"], data, fcols, ycol, sub, a, b)
            want = _call_injector(cls(), case["which"], data, fcols, ycol, sub, a, b)
        same_type = type(got) is type(want)
        same_cols = (not isinstance(want, pd.DataFrame)) or list(got.columns) == list(want.columns)
        if not (same_type and same_cols and cells_equal(values(got), values(want))):
            raise Violation(
                "injector-instance-state",
                f"{case['which']}: call {k} on a re-used injector object ({d['kind']}, labels {d.get('labels')}, column order {order}) differs from the same call on a fresh object",
                injector=case["which"],
            )
    kinds = {(d["kind"], d.get("labels"), tuple(d.get("col_order") or ())) for d in case["datasets"]}
    ctx.label(case["which"], f"calls={len(case['datasets'])}")
    if len(kinds) >= 2:
        ctx.label("nontrivial")


def strat_reuse(tier):
    @st.composite
    def s(draw):
        nf = draw(st.integers(2, 4))
        dsets = []
        for _ in range(draw(st.integers(2, 4))):
            d = draw(inj_case_data())
            n = len(d["cls"])
            d["feats"] = [(r + [0.0] * nf)[:nf] for r in d["feats"]]
            a = draw(st.integers(0, n))
            d["window"] = [a, draw(st.integers(a, n))]
            d["col_order"] = draw(st.permutations(list(range(nf + 1)))) if draw(st.booleans()) else None
            dsets.append(d)
        return {"which": draw(st.sampled_from(["FeatureShift", "FeatureSwap", "LabelSwap", "LabelJoin", "BrownianNoise"])), "datasets": dsets, "c1": draw(st.integers(0, 3)), "c2": draw(st.integers(0, 3)), "seed": draw(st.integers(0, 10**6))}

    return s()


def strat_frequencies(tier):
    @st.composite
    def s(draw):
        d = draw(inj_case_data())
        ncls = max(d["cls"]) + 1 if draw(st.booleans()) else draw(st.integers(2, 3))
        # every class occurs at the start of the data, and the window covers that start
        d["cls"] = list(range(ncls)) + [c % ncls for c in d["cls"][ncls:]]
        d["feats"] = d["feats"][: len(d["cls"])]
        while len(d["feats"]) < len(d["cls"]):
            d["feats"].append(list(d["feats"][0]))
        n = len(d["cls"])
        b = draw(st.integers(min(n, ncls + 1), n))
        e1 = draw(st.integers(0, 8))
        e2 = draw(st.integers(0, 8 - e1))
        return {
            "data": d,
            "window": [0, b],
            "eighths": [e1, e2],
            "specify_all": draw(st.booleans()),
            "repeats": draw(st.sampled_from([30, 60])),
            "seed": draw(st.integers(0, 10**6)),
        }

    return s()


def _desc(c):
    d = c["data"]
    out = {k: v for k, v in c.items() if k != "data"}
    out["data"] = {"kind": d["kind"], "ckind": d["ckind"], "rows": len(d["cls"]), "first_feats": d["feats"][:2], "cls": d["cls"][:10]}
    return out


PROPERTY = {
    "id": "C20",
    "level": "exploration",
    "rule": (
        "frame_effect: every injector on ndarray / DataFrame data (3-40 rows, 2-5 float feature columns on the 1/8 grid, class column of 1-3 "
        "classes coded as numbers or strings), all windows 0 <= from <= to <= n with empty and full windows forced in half of the cases, all "
        "column / class choices, integer random_states. Checked: container type, shape, column labels; rows outside the window and untargeted "
        "columns identical; inside the window the documented effect (swap + involution, label swap + involution, join, shift by "
        "shift_factor*(alpha+window mean), +-1/sqrt(steps) walk from x0, resampled rows come from the window; FeatureCover: n per group, each "
        "input row used at most once, traced through a unique id column). Non-trivial = non-empty proper window with >= 2 classes / distinct "
        "columns; DataFrames carry string labels or integer labels that differ from the positions. instance_reuse: one injector object called 2-4 times on different data (other container, labels, column order) must return what a fresh object returns. dirichlet_dominant_class: alpha dicts in drawn (unsorted) insertion order with one concentration 5000x the others - that class must receive >= 90 % of the resampled window. resampling_frequencies: 30-60 seeded draws per case, classes all present in the window, exact binomial tail test at 1e-10."
    ),
    "assumptions": [
        "feature columns are floats (shift / noise on integer-typed arrays would truncate)",
        "FeatureCover sample sizes respect the smallest group (pandas rejects larger samples without replacement)",
        "class-frequency claim judged only when every class of the data occurs in the window (otherwise the injector redistributes the mass)",
    ],
    "subchecks": [
        SubCheck("frame_effect", check_frame, strategy=strat_frame, nontrivial=lambda L: "nontrivial" in L, quick=3000, thorough=180000, shards_quick=16, describe=_desc),
        SubCheck("instance_reuse", check_reuse, strategy=strat_reuse, nontrivial=lambda L: "nontrivial" in L, quick=500, thorough=24000, shards_quick=8,
                 describe=lambda c: {"which": c["which"], "datasets": [{"kind": d["kind"], "labels": d.get("labels"), "col_order": d.get("col_order"), "rows": len(d["cls"])} for d in c["datasets"]]}),
        SubCheck("dirichlet_dominant_class", check_dirichlet, strategy=strat_dirichlet, nontrivial=lambda L: "unsorted-alpha-keys" in L, quick=250, thorough=12000, shards_quick=8, describe=_desc),
        SubCheck("resampling_frequencies", check_frequencies, strategy=strat_frequencies, nontrivial=lambda L: "frequencies-tested" in L, quick=250, thorough=12000, shards_quick=8, describe=_desc),
    ],
}
