"""C02 - after a drift (or a new reference) a detector starts from a clean slate.

Fresh-twin differential: the running detector is compared, epoch by epoch, with
a newly constructed detector that only sees the data after the drift plus the
documented carry-over, under the same numpy seed schedule."""
import numpy as np
from hypothesis import strategies as st

from vlib import catalogue as cat
from vlib.runner import SubCheck, Violation, sut

STREAM = ["DDM", "EDDM", "STEPD", "PageHinkley", "CUSUM", "KdqTreeStreaming"]
BATCH = ["KdqTreeBatch", "HDDDM", "CDBD", "NNDVI"]


def shift_recs(r, off):
    return [None if v is None else v + off for v in r]


def _diff(a, b):
    return {k: (a.get(k), b.get(k)) for k in set(a) | set(b) if a.get(k) != b.get(k)}


def _viol(kind, name, msg, case, i):
    c = dict(case)
    c["items"] = case["items"][: i + 1]
    if "ops" in c:
        c["ops"] = c["ops"][: i + 1]
    raise Violation(kind, f"{name}({case['params']}) at item {i}: {msg}", detector=name, case=c)


# ---------------------------------------------------------------- streaming
def stream_obs(det, name, off):
    o = cat.observe(det, deep=(name == "PageHinkley"))
    out = {"state": o["state"], "since": o["samples_since_reset"]}
    if "recs" in o:
        out["recs"] = shift_recs(o["recs"], off)
    if "acc" in o:
        out["acc"] = o["acc"]
    if "df" in o:
        out["df"] = o["df"]
    if name == "KdqTreeStreaming" and getattr(det, "_kdqtree", None) is not None:
        with sut(detector=name):
            df = det.to_plotly_dataframe()
        out["counts"] = [[int(a), int(b), int(c)] for a, b, c in zip(df["depth"], df["cell_count"], df["count_diff"])]
    return out


def check_stream(case, ctx):
    name = case["det"]
    spec = cat.SPECS[name]
    p = case["params"]
    items = case["items"]
    base = case["seed_base"]
    with sut(detector=name):
        det = spec.make(p)
    twin = None
    off = 0
    hist = []
    compared = 0
    epochs_compared = 0
    ndrift = 0
    for i, item in enumerate(items):
        was_drift = det.drift_state == "drift"
        if was_drift:
            with sut(detector=name):
                if name == "CUSUM":
                    win = hist[-p["burn_in"] :]
                    tp = dict(p)
                    tp["target"] = np.mean(win)
                    tp["sd_hat"] = np.std(win)
                    twin = spec.make(tp)
                else:
                    twin = spec.make(p)
            off = i
            if compared >= 4:
                epochs_compared += 1
            compared = 0
        X = cat.as_input(spec, item)
        errs = []
        for d in (det, twin):
            if d is None:
                errs.append(None)
                continue
            try:
                with sut(detector=name, allow=(ValueError,)):
                    np.random.seed(base + i)
                    if spec.kind == "y":
                        d.update(item[0], item[1])
                    else:
                        d.update(X)
                errs.append(None)
            except ValueError as e:
                errs.append(e)
        hist.append(np.array([[item[0]]]) if spec.kind == "x" else None)
        if errs[0] is not None or (twin is not None and errs[1] is not None):
            dets_ = (det, twin)
            if name == "CUSUM" and all(e is None or cat.is_domain_end(name, dets_[j], e) for j, e in enumerate(errs)) and (twin is None or (errs[0] is None) == (errs[1] is None)):
                ctx.label("truncated-sigma-zero")
                break
            _viol("exception-differs-from-twin", name, f"running detector raised {errs[0]!r}, fresh twin raised {errs[1]!r}", case, i)
        if twin is not None:
            a = stream_obs(det, name, 0)
            b = stream_obs(twin, name, off)
            if a != b:
                _viol(
                    "differs-from-fresh-twin",
                    name,
                    f"epoch started at item {off}: running detector vs fresh twin differ in {_diff(a, b)}",
                    case,
                    i,
                )
            compared += 1
        ndrift += det.drift_state == "drift"
    if compared >= 4:
        epochs_compared += 1
    ctx.label(name, f"{name}:drifts={min(ndrift, 3)}")
    if ndrift >= 2 and epochs_compared >= 1:
        ctx.label("nontrivial", f"{name}:nontrivial")


# -------------------------------------------------------------------- batch
def batch_obs(det, name, off, twin_since, ncols=1):
    o = cat.observe(det, deep=(name == "KdqTreeBatch"))
    out = {"state": o["state"]}
    if name in ("HDDDM", "CDBD"):
        tb = o["total_batches"]
        out["current_distance"] = o["current_distance"]
        out["reference_n"] = o["reference_n"]
        out["distance_now"] = o["distances"].get(tb)
        out["epsilon_now"] = o["epsilon_values"].get(tb)
        out["threshold_now"] = o["thresholds"].get(tb)
        if out["threshold_now"] is not None:
            out["beta"] = o["beta"]
        if twin_since >= 2:
            fe = getattr(det, "feature_epsilons", None)
            out["feature_epsilons"] = None if fe is None else [float(v) for v in fe]
        if o["state"] == "drift" and ncols > 1:
            fi = getattr(det, "feature_info", None)
            out["feature_info"] = None if fi is None else {k: (list(map(float, v)) if isinstance(v, list) else int(v)) for k, v in fi.items()}
    if name == "NNDVI":
        out["reference_batch"] = o["reference_batch"]
    if name == "KdqTreeBatch":
        out["counts"] = o.get("kdq_counts")
    return out, o


def check_batch(case, ctx):
    name = case["det"]
    spec = cat.SPECS[name]
    p = case["params"]
    items = case["items"]
    ops = case["ops"]
    base = case["seed_base"]
    with sut(detector=name):
        det = spec.make(p)
        np.random.seed(base)
        det.set_reference(cat.as_input(spec, items[0]))
    twin = None
    origin = None
    compared = 0
    epochs_compared = 0
    nresets = 0
    auto_epoch = False
    for i in range(1, len(items)):
        X = cat.as_input(spec, items[i])
        if ops[i] == "set_reference":
            with sut(detector=name):
                np.random.seed(base + i)
                det.set_reference(X)
                twin = spec.make(p)
                np.random.seed(base + i)
                twin.set_reference(X)
            origin = "set_reference"
            auto_epoch = False
            nresets += 1
            if compared >= 3:
                epochs_compared += 1
            compared = 0
            continue
        if name == "NNDVI" and not cat.nndvi_domain_ok(det, X):
            ctx.label("truncated-nndvi-domain")
            break
        was_drift = det.drift_state == "drift"
        with sut(detector=name):
            np.random.seed(base + i)
            det.update(X)
        if was_drift:
            with sut(detector=name):
                twin = spec.make(p)
                np.random.seed(base + i)
                twin.set_reference(cat.as_input(spec, items[i - 1]))
                twin.update(X)
            origin = "drift"
            auto_epoch = True
            nresets += 1
            if compared >= 3:
                epochs_compared += 1
            compared = 0
        elif twin is not None:
            with sut(detector=name):
                np.random.seed(base + i)
                twin.update(X)
        if twin is not None:
            b, ob = batch_obs(twin, name, 0, twin.batches_since_reset, case["ncols"])
            a, oa = batch_obs(det, name, 0, twin.batches_since_reset, case["ncols"])
            if auto_epoch:
                a["since"] = oa["batches_since_reset"]
                b["since"] = ob["batches_since_reset"]
            if a != b:
                _viol(
                    "differs-from-fresh-twin",
                    name,
                    f"epoch begun by {origin}: running detector vs fresh twin differ in {_diff(a, b)}",
                    case,
                    i,
                    )
            compared += 1
    if compared >= 3:
        epochs_compared += 1
    ctx.label(name)
    if name in ("HDDDM", "CDBD"):
        ctx.label(f"{name}:detect_batch={p['detect_batch']}")
    if "set_reference" in ops[1:]:
        ctx.label("explicit-set_reference")
    if nresets >= 2 and epochs_compared >= 1:
        ctx.label("nontrivial", f"{name}:nontrivial")


def strat_stream(names):
    def strat(tier):
        return cat.detector_case(names=names)

    return strat


def strat_batch(names):
    def strat(tier):
        @st.composite
        def s(draw):
            c = draw(cat.detector_case(names=names))
            n = len(c["items"])
            ops = ["set_reference"] + [("set_reference" if draw(st.integers(0, 9)) == 0 else "update") for _ in range(n - 1)]
            c["ops"] = ops
            return c

        return s()

    return strat


def _desc(c):
    return {"det": c["det"], "params": c["params"], "n_items": len(c["items"]), "ops": c.get("ops")}


PROPERTY = {
    "id": "C02",
    "level": "exploration",
    "rule": (
        "Hypothesis multi-epoch histories for DDM, EDDM, STEPD, PageHinkley, CUSUM, KdqTreeStreaming (streams) and KdqTreeBatch, HDDDM, "
        "CDBD, NNDVI (batch sequences with explicit set_reference calls at drawn positions). Each time the running detector reports "
        "drift (or set_reference is called) a fresh twin with the documented carry-over is started on the remaining data under the same "
        "per-call numpy seed; after every later update state, shifted retraining_recs, since-reset counter and public statistics must be "
        "identical. Non-trivial = at least two epoch starts (drifts / set_reference) and a compared epoch of >= 4 (stream) / >= 3 (batch) updates."
    ),
    "assumptions": [
        "CUSUM carry-over = numpy mean / population s.d. of the last burn_in observations (same reductions as the detector)",
        "since-reset counters are compared on the automatic path only",
        "feature_epsilons compared from the epoch's second batch on",
    ],
    "subchecks": [
        SubCheck("concept", check_stream, strategy=strat_stream(["DDM", "EDDM", "STEPD"]), nontrivial=lambda L: "nontrivial" in L, quick=450, thorough=9000, shards_quick=6, describe=_desc),
        SubCheck("change", check_stream, strategy=strat_stream(["PageHinkley", "CUSUM"]), nontrivial=lambda L: "nontrivial" in L, quick=300, thorough=6000, shards_quick=8, describe=_desc),
        SubCheck("kdq_streaming", check_stream, strategy=strat_stream(["KdqTreeStreaming"]), nontrivial=lambda L: "nontrivial" in L, quick=120, thorough=3000, shards_quick=8, describe=_desc),
        SubCheck("batch", check_batch, strategy=strat_batch(BATCH), nontrivial=lambda L: "nontrivial" in L, quick=500, thorough=10000, shards_quick=8, describe=_desc),
    ],
}
