"""C08 - the kdq-tree partitions space consistently and conserves counts.

Validity predicates over the public tree + an independent membership model that
routes every built / filled point down the public splits itself."""
import math

import numpy as np
from hypothesis import strategies as st

from vlib.runner import SubCheck, Violation, sut

IDS = ["build", "a", "b", "test"]


class Mirror:
    """Pre-order mirror of the public tree with the harness's own per-id counts."""

    def __init__(self, root):
        self.nodes = []  # (node, depth, parent_index)
        self._walk(root, 0, None)
        self.index = {id(n): i for i, (n, _, _) in enumerate(self.nodes)}
        self.counts = {}  # id -> list of counts per node
        self.inconsistent = set()

    def _walk(self, n, depth, parent):
        if n is None:
            return
        i = len(self.nodes)
        self.nodes.append((n, depth, parent))
        self._walk(n.left, depth + 1, i)
        self._walk(n.right, depth + 1, i)

    def is_leaf(self, i):
        return self.nodes[i][0].axis is None

    def leaves(self):
        return [i for i in range(len(self.nodes)) if self.is_leaf(i)]

    def route(self, data):
        """per-node number of points of ``data`` whose cell path passes the node"""
        c = [0] * len(self.nodes)
        on_mid = False
        for x in data:
            n = self.nodes[0][0]
            while True:
                c[self.index[id(n)]] += 1
                if n.axis is None:
                    break
                if x[n.axis] == n.midpoint_at_axis:
                    on_mid = True
                n = n.left if x[n.axis] <= n.midpoint_at_axis else n.right
                if n is None:
                    raise Violation("kdq-missing-child", "an internal node has a missing child on the path of a point", part="tree")
        return c, on_mid

    def fill(self, data, tid, reset):
        c, on_mid = self.route(data)
        if tid not in self.counts or reset:
            self.counts[tid] = c
            self.inconsistent.discard(tid)
        else:
            self.counts[tid] = [a + b for a, b in zip(self.counts[tid], c)]
        return on_mid

    def reset(self, value, tid):
        self.counts[tid] = [value] * len(self.nodes)
        if value != 0:
            self.inconsistent.add(tid)
        else:
            self.inconsistent.discard(tid)


def dist(c):
    c = np.asarray(c, dtype=float)
    return (c + 0.5) / (c.sum() + len(c) / 2.0)


def kl(p, q):
    return float(np.sum(p * np.log(p / q)))


def check_tree(part, mirror, data, cu, lb, ctx):
    d = data.shape[1]
    mincut = [int(lb * (data[:, a].max() - data[:, a].min())) for a in range(d)]
    held = {0: data}
    nleaves = 0
    maxdepth = 0
    for i, (n, depth, parent) in enumerate(mirror.nodes):
        pts = held[i]
        maxdepth = max(maxdepth, depth)
        got = n.num_samples_in_compared_subtrees.get("build")
        if got != len(pts):
            raise Violation(
                "kdq-build-count",
                f"node {i} (depth {depth}) reports build count {got} but {len(pts)} of the build points lie in its cell (routing by the public splits)",
                part="build",
            )
        if n.axis is None:
            nleaves += 1
            if n.left is not None or n.right is not None:
                raise Violation("kdq-leaf-with-children", f"node {i} has no split axis but has children", part="build")
            if len(pts) > cu:
                ax = depth % d
                lo, hi = pts[:, ax].min(), pts[:, ax].max()
                cell = (lo + (hi - lo) / 2) - lo
                if not (np.unique(pts).size <= cu or cell <= mincut[ax]):
                    raise Violation(
                        "kdq-unsplit-leaf",
                        f"leaf {i} holds {len(pts)} > count_ubound={cu} points and no documented stop rule applies (cell {cell}, min cut {mincut[ax]})",
                        part="build",
                    )
                ctx.label("big-leaf-by-stop-rule")
            continue
        if n.axis != depth % d:
            raise Violation("kdq-axis", f"node {i} at depth {depth} splits axis {n.axis}, expected {depth % d}", part="build")
        if len(pts) <= cu:
            raise Violation("kdq-split-small-node", f"node {i} holds {len(pts)} <= count_ubound={cu} points but is split", part="build")
        lo, hi = pts[:, n.axis].min(), pts[:, n.axis].max()
        if abs(float(n.midpoint_at_axis) - float((lo + hi) / 2)) > 1e-12 * (1 + abs(lo) + abs(hi)):
            raise Violation(
                "kdq-midpoint", f"node {i}: midpoint {n.midpoint_at_axis} but its points span [{lo}, {hi}] on axis {n.axis}", part="build"
            )
        if n.left is None or n.right is None:
            raise Violation("kdq-missing-child", f"internal node {i} lacks a child", part="build")
        li = mirror.index[id(n.left)]
        ri = mirror.index[id(n.right)]
        held[li] = pts[pts[:, n.axis] <= n.midpoint_at_axis]
        held[ri] = pts[pts[:, n.axis] > n.midpoint_at_axis]
        if (pts[:, n.axis] == n.midpoint_at_axis).any():
            ctx.label("build-point-on-midpoint")
    if [id(l) for l in part.leaves] != [id(mirror.nodes[i][0]) for i in mirror.leaves()]:
        raise Violation("kdq-leaves-order", "partitioner.leaves is not the left-to-right list of the tree's leaves", part="build")
    return nleaves, maxdepth


def compare_counts(part, mirror, where):
    for tid, cs in mirror.counts.items():
        for i, (n, depth, parent) in enumerate(mirror.nodes):
            got = n.num_samples_in_compared_subtrees.get(tid)
            if got != cs[i]:
                raise Violation(
                    "kdq-count-mismatch",
                    f"after {where}: node {i} (depth {depth}, leaf={n.axis is None}) count[{tid!r}]={got}, membership model says {cs[i]}",
                    part="fill",
                )
            if n.axis is not None and tid not in mirror.inconsistent:
                l = n.left.num_samples_in_compared_subtrees.get(tid)
                r = n.right.num_samples_in_compared_subtrees.get(tid)
                if l is None or r is None or l + r != got:
                    raise Violation("kdq-not-conserved", f"after {where}: node {i} count[{tid!r}]={got} but children hold {l}+{r}", part="fill")
        with sut(part="leaf_counts"):
            lc = part.leaf_counts(tid)
        want = [cs[i] for i in mirror.leaves()]
        if [int(v) for v in lc] != want:
            raise Violation("kdq-leaf-counts", f"after {where}: leaf_counts({tid!r})={list(lc)}, expected {want}", part="fill")


def check_partitioner(case, ctx):
    from menelaus.partitioners import KDQTreePartitioner

    data = np.array(case["data"], dtype=float)
    cu, lb = case["cu"], case["lb"]
    build_arg = data
    if case.get("int_build") and np.array_equal(data, np.round(data)):
        build_arg = data.astype(np.int64)  # same points, integer dtype; later fills may be fractional floats
        ctx.label("integer-typed-build")
    with sut(part="build"):
        part = KDQTreePartitioner(count_ubound=cu, cutpoint_proportion_lbound=lb)
        root = part.build(build_arg)
    if root is None or part.node is not root:
        raise Violation("kdq-build-none", "build returned no tree for a non-empty 2-D data set", part="build")
    mirror = Mirror(part.node)
    nleaves, maxdepth = check_tree(part, mirror, data, cu, lb, ctx)
    mirror.counts["build"] = mirror.route(data)[0]
    compare_counts(part, mirror, "build")
    total_build = len(data)
    nfills = naccum = nreset = 0
    ids_filled = set()
    lo, hi = data.min(axis=0), data.max(axis=0)
    for k, op in enumerate(case["ops"]):
        kind = op["op"]
        where = f"op {k} {kind}"
        if kind in ("fill", "refill_build"):
            pts = data if kind == "refill_build" else np.array(op["data"], dtype=float).reshape(-1, data.shape[1])
            if op.get("tile", 1) > 1 and len(pts):
                pts = np.tile(pts, (op["tile"], 1))  # thousands of points from a small drawn block
                ctx.label("large-fill" if len(pts) > 4096 else "tiled-fill")
            tid = op["id"]
            existed = tid in mirror.counts
            with sut(part="fill"):
                part.fill(pts, tree_id=tid, reset=op["reset"])
            on_mid = mirror.fill(pts, tid, op["reset"])
            nfills += 1
            ids_filled.add(tid)
            if existed and not op["reset"]:
                naccum += 1
                ctx.label("accumulate")
            if existed and op["reset"]:
                nreset += 1
                ctx.label("fill-with-reset")
            if on_mid:
                ctx.label("fill-point-on-midpoint")
            if len(pts) and ((pts < lo).any() or (pts > hi).any()):
                ctx.label("fill-outside-build-range")
            if kind == "refill_build" and (not existed or op["reset"]) and tid != "build":
                if mirror.counts[tid] != mirror.route(data)[0]:
                    raise Violation("harness", "model inconsistency")
                with sut(part="leaf_counts"):
                    if list(part.leaf_counts(tid)) != list(part.leaf_counts("build")) and "build" not in mirror.inconsistent and mirror.counts["build"] == mirror.route(data)[0]:
                        raise Violation(
                            "kdq-refill-differs-from-build",
                            f"{where}: filling the build data under {tid!r} gives {part.leaf_counts(tid)}, build counts are {part.leaf_counts('build')}",
                            part="fill",
                        )
                ctx.label("refill-build-data")
        elif kind == "reset":
            with sut(part="reset"):
                part.reset(value=op["value"], tree_id=op["id"])
            mirror.reset(op["value"], op["id"])
        elif kind == "kl":
            a, b = op["id1"], op["id2"]
            if a not in mirror.counts or b not in mirror.counts:
                continue
            with sut(part="kl_distance"):
                got = part.kl_distance(a, b)
            ca = [mirror.counts[a][i] for i in mirror.leaves()]
            cb = [mirror.counts[b][i] for i in mirror.leaves()]
            pa, pb = dist(ca), dist(cb)
            if abs(pa.sum() - 1) > 1e-12 or abs(pb.sum() - 1) > 1e-12:
                raise Violation("harness", "model distribution does not sum to one")
            want = kl(pa, pb)
            if not (abs(got - want) <= 1e-12 * (1 + abs(want))):
                raise Violation("kdq-kl-value", f"{where}: kl_distance({a!r},{b!r})={got}, corrected KL of the leaf counts {ca} vs {cb} is {want}", part="kl")
            if got < -1e-15:
                raise Violation("kdq-kl-negative", f"{where}: kl_distance={got}", part="kl")
            if ca == cb and abs(got) > 1e-15:
                raise Violation("kdq-kl-identity", f"{where}: equal counts but kl_distance={got}", part="kl")
            ctx.label("kl")
        elif kind == "plot":
            a, b, md = op["id1"], op.get("id2"), op.get("max_depth")
            if a not in mirror.counts:
                continue
            with sut(part="to_plotly_dataframe"):
                df = part.to_plotly_dataframe(tree_id1=a, tree_id2=b, max_depth=md)
            shown = [i for i, (n, depth, parent) in enumerate(mirror.nodes) if not md or depth <= md]
            if len(df) != len(shown):
                raise Violation("kdq-plot-rows", f"{where}: {len(df)} rows for {len(shown)} nodes (max_depth={md})", part="plot")
            idxs = list(df["idx"])
            if len(set(idxs)) != len(idxs):
                raise Violation("kdq-plot-idx", f"{where}: idx not unique", part="plot")
            c1 = mirror.counts[a]
            c2 = mirror.counts.get(b) if b else None
            max1 = max(c1[i] for i in shown)
            tcs = [(c2[i] if c2 is not None else 0) for i in shown]
            max2 = max(tcs)
            for r, i in enumerate(shown):
                n, depth, parent = mirror.nodes[i]
                row = df.iloc[r]
                pidx = row["parent_idx"]
                want_parent = None if parent is None else id(mirror.nodes[parent][0])
                pnull = pidx is None or (isinstance(pidx, float) and math.isnan(pidx))
                if int(row["idx"]) != id(n) or int(row["depth"]) != depth or int(row["cell_count"]) != c1[i] or (pnull != (want_parent is None)) or (not pnull and int(pidx) != want_parent):
                    raise Violation(
                        "kdq-plot-row",
                        f"{where}: row {r} = {dict(row)} does not describe node {i} (depth {depth}, count {c1[i]}, parent {want_parent})",
                        part="plot",
                    )
                if b:
                    tc = c2[i] if c2 is not None else 0
                    if int(row["count_diff"]) != tc - c1[i]:
                        raise Violation("kdq-plot-diff", f"{where}: row {r} count_diff={row['count_diff']}, expected {tc - c1[i]}", part="plot")
                    if a not in mirror.inconsistent and (b not in mirror.inconsistent):
                        want = kl(dist([c1[i], max1 - c1[i]]), dist([tc, max2 - tc]))
                        if not abs(float(row["kss"]) - want) <= 1e-12 * (1 + abs(want)):
                            raise Violation(
                                "kdq-plot-kss",
                                f"{where}: row {r} kss={row['kss']}, corrected two-cell KL of ({c1[i]},{max1 - c1[i]}) vs ({tc},{max2 - tc}) is {want}",
                                part="plot",
                            )
            ctx.label("plot" + ("-2ids" if b else ""))
        compare_counts(part, mirror, where)
        for tid, cs in mirror.counts.items():
            if tid in mirror.inconsistent:
                continue
            if sum(cs[i] for i in mirror.leaves()) != cs[0]:
                raise Violation("harness", "model leaf sum")
    ctx.label(f"leaves={min(nleaves, 4)}", f"depth={min(maxdepth, 3)}")
    if maxdepth >= 2 and nleaves >= 3 and nfills >= 2 and len(ids_filled) >= 2 and naccum >= 1 and nreset >= 1:
        ctx.label("nontrivial")


@st.composite
def points(draw, d, flavour, nmin, nmax, wide=False):
    n = draw(st.integers(nmin, nmax))
    if flavour == "cont":
        rng = 96 if wide else 64
        cell = st.integers(-rng, rng).map(lambda k: k / 8)
    elif flavour == "int":
        cell = st.integers(-3 if wide else 0, 15 if wide else 12).map(float)
    elif flavour == "decimal":  # one-decimal values: not exactly representable, boundary points are rounding-sensitive
        cell = st.integers(-12 if wide else 0, 42 if wide else 30).map(lambda k: k / 10)
    elif flavour == "dup":
        cell = st.sampled_from([0.0, 1.0, 2.0, 0.5] + ([-1.0, 3.0] if wide else []))
    else:  # big
        cell = st.integers(-5 if wide else 0, 105 if wide else 100).map(lambda k: k * 16.0)
    rows = draw(st.lists(st.lists(cell, min_size=d, max_size=d), min_size=n, max_size=n))
    return rows


def strat_partitioner(tier):
    @st.composite
    def s(draw):
        d = draw(st.integers(1, 4))
        flavour = draw(st.sampled_from(["cont", "cont", "int", "dup", "big", "decimal", "decimal"]))
        data = draw(points(d, flavour, 1, 6)) if draw(st.integers(0, 7)) == 0 else draw(points(d, flavour, 16, 120))
        if d > 1 and draw(st.integers(0, 5)) == 0:
            j = draw(st.integers(0, d - 1))
            data = [[(7.0 if jj == j else v) for jj, v in enumerate(r)] for r in data]
        ops = []
        nops = draw(st.integers(3, 14))
        for _ in range(nops):
            kind = draw(st.sampled_from(["fill", "fill", "fill", "fill", "refill_build", "reset", "kl", "plot"]))
            if kind == "fill":
                fill_flavour = "cont" if (flavour in ("int", "dup") and draw(st.booleans())) else flavour  # fractional points into an integer-valued tree
                ops.append({"op": "fill", "data": draw(points(d, fill_flavour, 0, 40, wide=True)), "id": draw(st.sampled_from(["a", "a", "b", "test", "build"])), "reset": draw(st.sampled_from([False, False, True])), "tile": draw(st.sampled_from([1] * 12 + [30, 130, 260]))})
            elif kind == "refill_build":
                ops.append({"op": "refill_build", "id": draw(st.sampled_from(IDS[1:])), "reset": draw(st.booleans())})
            elif kind == "reset":
                ops.append({"op": "reset", "value": draw(st.sampled_from([0, 0, 3])), "id": draw(st.sampled_from(IDS))})
            elif kind == "kl":
                ops.append({"op": "kl", "id1": draw(st.sampled_from(IDS)), "id2": draw(st.sampled_from(IDS))})
            else:
                ops.append(
                    {"op": "plot", "id1": draw(st.sampled_from(IDS)), "id2": draw(st.sampled_from([None] + IDS)), "max_depth": draw(st.sampled_from([None, None, 0, 1, 2, 3]))}
                )
        return {
            "data": data,
            "cu": draw(st.sampled_from([1, 1, 2, 2, 3, 4, 6, 10, 20])),
            "lb": draw(st.sampled_from([2e-10, 2e-10, 0.01, 0.25, 1])),
            "ops": ops,
            "int_build": draw(st.booleans()),
        }

    return s()


PROPERTY = {
    "id": "C08",
    "level": "exploration",
    "rule": (
        "Hypothesis point sets (1-120 rows x 1-4 columns; grids: eighths in +-8, small integers, heavily duplicated values, multiples of 16, one-decimal values (rounding-sensitive split boundaries), "
        "optional constant column) x count_ubound 1..20 x cutpoint_proportion_lbound {2e-10,.01,.25,1}, followed by a generated sequence "
        "of up to 12 operations (fill under 4 ids with/without reset incl. points outside the build range and empty fills, re-fill of the "
        "build data, reset, kl_distance, to_plotly_dataframe with/without second id and max_depth). After build the public tree is "
        "validated (axis cycling, midpoints, no split of small nodes, stop rules, build counts by routing); after every operation each "
        "node's count for every id, leaf_counts, conservation, KL value / sign / identity and every plot row incl. the Kulldorff statistic "
        "are compared with the harness's own membership model. Non-trivial = depth >= 2, >= 3 leaves, >= 2 fills under >= 2 ids incl. one accumulate and one reset."
    ),
    "assumptions": [
        "inputs on dyadic grids so that midpoints are exact; adjacent-double coordinates are outside the domain",
        "build is called once per partitioner",
        "the stop rule on the number of distinct scalars (np.unique of the node's data) is accepted as documented behaviour",
    ],
    "subchecks": [
        SubCheck(
            "partitioner_ops",
            check_partitioner,
            strategy=strat_partitioner,
            nontrivial=lambda L: "nontrivial" in L,
            quick=800,
            thorough=60000,
            shards_quick=16,
            describe=lambda c: {"n_points": len(c["data"]), "first_points": c["data"][:3], "cu": c["cu"], "lb": c["lb"], "ops": [{k: v for k, v in o.items() if k != "data"} for o in c["ops"]]},
        )
    ],
}
