"""C10 - NN-DVI measures neighbourhood density change between exactly the given batches."""
import numpy as np
from hypothesis import strategies as st

from vlib import strategies as vs
from vlib.models import nnsp_nndvi as nm
from vlib.runner import Decoy, SubCheck, Violation, sut
from vlib.tolerant import Forker


def build(k, s1, s2):
    from menelaus.partitioners import NNSpacePartitioner

    p = NNSpacePartitioner(k)
    p.build(np.array(s1, dtype=float), np.array(s2, dtype=float))
    return p


def dist_of(p):
    from menelaus.partitioners import NNSpacePartitioner

    return float(NNSpacePartitioner.compute_nnps_distance(p.nnps_matrix, p.v1, p.v2))


def check_pair(case, ctx):
    s1, s2, k = case["s1"], case["s2"], case["k"]
    a1 = np.array(s1, dtype=float)
    a2 = np.array(s2, dtype=float)
    D, v1, v2 = nm.membership(a1, a2)
    if k > len(D):
        ctx.label("discard-k>distinct")
        return
    with sut(part="NNSpacePartitioner"):
        p = build(k, s1, s2)
        got_D = np.asarray(p.D)
        got_v1 = np.asarray(p.v1, dtype=float)
        got_v2 = np.asarray(p.v2, dtype=float)
        A = np.asarray(p.adjacency_matrix, dtype=float)
        M = np.asarray(p.nnps_matrix, dtype=float)
    sig = dict(part="NNSpacePartitioner")
    for nm_, arr, nd in (("D", got_D, 2), ("v1", got_v1, 1), ("v2", got_v2, 1), ("adjacency_matrix", A, 2), ("nnps_matrix", M, 2)):
        if arr.ndim != nd or arr.dtype == object:
            raise Violation("nnsp-malformed-output", f"{nm_} is not a {nd}-dimensional numeric array after build(): {arr!r}"[:300], **sig)
    # --- D: exactly the distinct rows of the union
    rows = [tuple(r) for r in got_D.tolist()]
    if len(set(rows)) != len(rows) or set(rows) != {tuple(r) for r in D.tolist()}:
        raise Violation("nnsp-D", f"D is not the de-duplicated union: {rows}", **sig)
    S1 = {tuple(r) for r in a1.tolist()}
    S2 = {tuple(r) for r in a2.tolist()}
    w1 = [1.0 if r in S1 else 0.0 for r in rows]
    w2 = [1.0 if r in S2 else 0.0 for r in rows]
    if got_v1.tolist() != w1 or got_v2.tolist() != w2:
        raise Violation(
            "nnsp-membership",
            f"sizes {len(s1)}/{len(s2)}: v1={got_v1.tolist()} v2={got_v2.tolist()} but membership of D's rows is v1={w1} v2={w2}",
            **sig,
        )
    # --- adjacency: k nearest neighbours, each point included
    n = len(rows)
    if A.shape != (n, n):
        raise Violation("nnsp-adjacency-shape", f"{A.shape} for {n} points", **sig)
    dm = np.linalg.norm(got_D[:, None, :] - got_D[None, :, :], axis=2)
    for i in range(n):
        inc = A[i] > 0
        if not set(np.unique(A[i]).tolist()) <= {0.0, 1.0} or inc.sum() != k or not inc[i]:
            raise Violation("nnsp-adjacency", f"row {i} of the adjacency matrix has {int(inc.sum())} neighbours (k={k}), self included={bool(inc[i])}", **sig)
        if (~inc).any() and dm[i][inc].max() > dm[i][~inc].min() + 1e-9:
            raise Violation("nnsp-adjacency", f"row {i}: an excluded point is closer than an included neighbour", **sig)
    if not np.allclose(M, nm.normalise(A), rtol=0, atol=1e-12):
        raise Violation("nnsp-nnps-matrix", "nnps_matrix is not the weight-normalised adjacency matrix", **sig)
    # --- distance: definition, symmetry, range, identity
    with sut(part="NNSpacePartitioner"):
        d = dist_of(p)
        q = build(k, s2, s1)
        d_sw = dist_of(q)
    want = nm.nnps_distance(M, np.array(w1), np.array(w2))
    if not abs(d - want) <= 1e-12:
        raise Violation("nnsp-distance-value", f"compute_nnps_distance={d}, definition gives {want}", **sig)
    if not (-1e-12 <= d <= 1 + 1e-12):
        raise Violation("nnsp-distance-range", f"distance {d} outside [0,1]", **sig)
    if not abs(d - d_sw) <= 1e-12:
        raise Violation("nnsp-distance-symmetry", f"d(s1,s2)={d} but d(s2,s1)={d_sw} (sizes {len(s1)}/{len(s2)})", **sig)
    # identity: second sample = first sample reordered with duplicates
    perm = case.get("perm")
    if perm:
        s1b = [s1[i % len(s1)] for i in perm] + list(s1)
        if k <= len(S1):
            with sut(part="NNSpacePartitioner"):
                d0 = dist_of(build(k, s1, s1b))
            if abs(d0) > 1e-12:
                raise Violation("nnsp-distance-identity", f"both samples are the same set (sizes {len(s1)}/{len(s1b)}) but distance is {d0}", **sig)
            ctx.label("identity-checked")
    if len(s1) != len(s2):
        ctx.label("unequal-sizes")
    if S1 & S2:
        ctx.label("duplicate-across-samples")
    if len(S1) < len(s1) or len(S2) < len(s2):
        ctx.label("duplicate-within-sample")
    if len(s1) != len(s2) and (S1 & S2):
        ctx.label("nontrivial")


def strat_pair(tier):
    @st.composite
    def s(draw):
        d = draw(st.integers(1, 3))
        flav = draw(st.sampled_from(["int", "int", "dyadic"]))
        cell = st.integers(0, 5).map(float) if flav == "int" else st.integers(-24, 24).map(lambda v: v / 8)
        row = st.lists(cell, min_size=d, max_size=d)
        n1 = draw(st.integers(2, 30))
        n2 = n1 if draw(st.booleans()) else draw(st.integers(2, 30))
        s1 = draw(st.lists(row, min_size=n1, max_size=n1))
        s2 = draw(st.lists(row, min_size=n2, max_size=n2))
        if draw(st.integers(0, 3)) == 0:
            j = draw(st.integers(0, n1 - 1))
            s2 = s2[:-1] + [s1[j]]
        k = draw(st.integers(1, 6))
        perm = draw(st.lists(st.integers(0, 29), min_size=0, max_size=8))
        return {"s1": s1, "s2": s2, "k": k, "perm": perm}

    return s()


# -------------------------------------------------------------------- NNDVI
def check_nndvi(case, ctx):
    from menelaus.data_drift import NNDVI

    p = case["params"]
    items = case["items"]
    base = case["seed_base"]
    with sut(detector="NNDVI"):
        det = NNDVI(**p)
        det.set_reference(np.array(items[0], dtype=float))
    decoy = Decoy(lambda: NNDVI(**p), lambda d, X_, first: (d.set_reference(X_) if first else d.update(X_)), every=1)
    decoy.step(np.array(items[0], dtype=float), True)
    model = nm.NNDVIModel(p["k_nn"], p["sampling_times"], p["alpha"])
    model.set_reference(items[0])
    fk = Forker(model, copier=lambda m: m.clone())
    for i in range(1, len(items)):
        X = np.array(items[i], dtype=float)
        pooled = np.unique(np.vstack([fk.states[0].ref, X]), axis=0)
        if len(pooled) < p["k_nn"]:
            ctx.label("truncated-k>distinct")
            break
        np.random.seed(base + i + 7919)
        decoy.step(X.copy(), False)
        with sut(detector="NNDVI"):
            np.random.seed(base + i)
            det.update(X)
            obs = det.drift_state
            ref = np.asarray(det.reference_batch, dtype=float)
        probe = float(np.random.random())  # where the global generator stands after the call: counts the draws consumed

        def stepfn(m, ch):
            np.random.seed(base + i)
            o = m.step(X, ch)
            o["probe"] = float(np.random.random())
            return o

        verdict, outs = fk.advance(stepfn, lambda o: o["degenerate"] or o["state"] == obs)
        if verdict == "ok" and not outs[0]["degenerate"] and all(o["probe"] != probe for o in outs):
            c = dict(case)
            c["items"] = items[: i + 1]
            raise Violation(
                "nndvi-random-draws",
                f"NNDVI({p}) batch {i}: the update did not consume the documented random numbers (sampling_times={p['sampling_times']} re-assignments of the pooled points): generator position differs from the reference computation's",
                detector="NNDVI",
                case=c,
            )
        if verdict == "ok" and outs[0]["degenerate"]:
            ctx.label("truncated-zero-spread-permutations")
            break
        if verdict == "mismatch":
            c = dict(case)
            c["items"] = items[: i + 1]
            raise Violation(
                "nndvi-decision-mismatch",
                f"NNDVI({p}) batch {i} (reference {len(fk.states[0].ref)} rows, batch {len(X)} rows): implementation state={obs!r}; "
                f"reference: distance={outs[0]['d']}, threshold={outs[0]['th']} -> {outs[0]['state']!r}",
                detector="NNDVI",
                case=c,
            )
        if verdict == "overflow":
            ctx.label("truncated-ambiguous")
            break
        if not any(np.array_equal(ref, m.ref) for m in fk.states):
            c = dict(case)
            c["items"] = items[: i + 1]
            raise Violation(
                "nndvi-reference",
                f"NNDVI({p}) batch {i}: state={obs!r} but reference_batch is not {'the drifted batch' if obs == 'drift' else 'the previous reference'}",
                detector="NNDVI",
                case=c,
            )
    m = fk.states[0]
    ctx.label(f"drifts={min(m.ndrift, 3)}")
    sizes = {len(b) for b in items}
    if len(sizes) > 1:
        ctx.label("unequal-sizes")
    if m.ndrift >= 1 and m.nondrift_after_drift:
        ctx.label("nontrivial")
    if fk.forked_steps:
        ctx.label("met-tie")


def strat_nndvi(tier):
    @st.composite
    def s(draw):
        d = draw(st.integers(1, 3))
        p = {"k_nn": draw(st.integers(1, 6)), "sampling_times": draw(st.one_of(st.integers(2, 30), st.integers(2, 30), st.integers(2, 30), st.sampled_from([100, 250, 251, 300, 499, 512, 600]))), "alpha": draw(st.sampled_from([0.01, 0.05, 0.2, 0.4, 0.5]))}
        items = draw(vs.batch_history(d, n_min=3, n_max=8, rows_min=4, rows_max=20, spread=2, shift=3, denom=4, p_shift=0.4))
        return {"params": p, "items": items, "seed_base": draw(vs.seed_base)}

    return s()


PROPERTY = {
    "id": "C10",
    "level": "exploration",
    "rule": (
        "nnsp_pairs: pairs of point sets (2-30 rows each, equal sizes in about half of the cases, 1-3 columns, integer grid 0..5 or eighths; "
        "a row of sample 1 is planted into sample 2 in a quarter of the cases) x k 1..6: D / v1 / v2 vs. set membership, adjacency = validity "
        "predicate of the k-nearest-neighbour relation (self included, ties admitted), nnps_matrix normalisation, distance vs. definition, "
        "symmetry under swapping, range [0,1], 0 for a reordered/duplicated copy. Non-trivial = unequal sizes and a row shared by both samples. "
        "nndvi: 3-8 batches (4-20 rows) with shifts x k_nn x sampling_times 2..30 (a quarter of the cases 100..600) x alpha; reference model with own membership/distance and "
        "same-seed permutation threshold; drift_state and reference_batch after every update. Non-trivial = a drift followed by a non-drift."
    ),
    "assumptions": [
        "scikit-learn's NearestNeighbors is trusted for the neighbour search (the model calls it on its own D)",
        "k <= number of distinct pooled points (otherwise scikit-learn rejects the query); zero-spread permutation distances end the case",
    ],
    "subchecks": [
        SubCheck("nnsp_pairs", check_pair, strategy=strat_pair, nontrivial=lambda L: "nontrivial" in L, quick=1500, thorough=90000, shards_quick=8),
        SubCheck(
            "nndvi",
            check_nndvi,
            strategy=strat_nndvi,
            nontrivial=lambda L: "nontrivial" in L,
            quick=300,
            thorough=15000,
            shards_quick=8,
            describe=lambda c: {"params": c["params"], "batch_sizes": [len(b) for b in c["items"]], "first_batch": c["items"][0][:3]},
        ),
    ],
}
