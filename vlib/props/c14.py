"""C14 - uniform input validation; rejected inputs do no harm; containers don't matter."""
import numpy as np
import pandas as pd
from hypothesis import strategies as st

from vlib import catalogue as cat
from vlib import strategies as vs
from vlib.runner import SubCheck, Violation, sut

NAMES = ["f0", "f1", "f2", "f3", "f4", "f5"]
OTHER = ["w", "x", "y", "z", "u", "v"]


# ----------------------------------------------------------------------------
# small, quickly firing parameters
# ----------------------------------------------------------------------------
SMALL = {
    "ADWIN": st.fixed_dictionaries(
        {"delta": st.sampled_from([0.5, 1.0]), "max_buckets": st.integers(1, 3), "new_sample_thresh": st.integers(1, 3), "window_size_thresh": st.integers(0, 3), "subwindow_size_thresh": st.just(1)}
    ),
    "ADWINAccuracy": st.fixed_dictionaries(
        {"delta": st.sampled_from([0.5, 1.0]), "max_buckets": st.integers(1, 3), "new_sample_thresh": st.integers(1, 3), "window_size_thresh": st.integers(0, 3), "subwindow_size_thresh": st.just(1)}
    ),
    "CUSUM": st.fixed_dictionaries({"burn_in": st.integers(2, 3), "threshold": st.sampled_from([0.5, 1, 2]), "direction": st.sampled_from([None, "positive", "negative"])}),
    "PageHinkley": st.fixed_dictionaries({"burn_in": st.integers(0, 2), "threshold": st.sampled_from([0.5, 1]), "direction": st.sampled_from(["positive", "negative"])}),
    "DDM": st.fixed_dictionaries({"n_threshold": st.integers(1, 3)}),
    "EDDM": st.fixed_dictionaries({"n_threshold": st.integers(1, 2)}),
    "STEPD": st.fixed_dictionaries({"window_size": st.integers(1, 2), "alpha_warning": st.just(0.3), "alpha_drift": st.just(0.1)}),
    "LinearFourRates": st.fixed_dictionaries({"burn_in": st.integers(0, 3), "num_mc": st.just(5), "detect_level": st.just(0.1), "warning_level": st.just(0.3)}),
    "KdqTreeStreaming": st.fixed_dictionaries(
        {"window_size": st.integers(2, 4), "bootstrap_samples": st.integers(3, 5), "count_ubound": st.integers(1, 2), "alpha": st.sampled_from([0.3, 0.5]), "persistence": st.sampled_from([0, 0.3])}
    ),
    "PCACD": st.fixed_dictionaries(
        {"window_size": st.just(8), "sample_period": st.just(0.5), "divergence_metric": st.sampled_from(["kl", "intersection"]), "online_scaling": st.booleans(), "delta": st.just(0.0)}
    ),
    "KdqTreeBatch": st.fixed_dictionaries({"bootstrap_samples": st.integers(3, 5), "count_ubound": st.integers(1, 3), "alpha": st.sampled_from([0.3, 0.5])}),
    "HDDDM": st.fixed_dictionaries(
        {"detect_batch": st.integers(1, 3), "subsets": st.integers(2, 3), "statistic": st.sampled_from(["tstat", "stdev"]), "significance": st.sampled_from([0.05, 0.5])}
    ),
    "CDBD": st.fixed_dictionaries(
        {"detect_batch": st.integers(1, 3), "subsets": st.integers(2, 3), "statistic": st.sampled_from(["tstat", "stdev"]), "significance": st.sampled_from([0.05, 0.5])}
    ),
    "NNDVI": st.fixed_dictionaries({"k_nn": st.integers(1, 2), "sampling_times": st.integers(3, 6), "alpha": st.sampled_from([0.3, 0.5])}),
}


def containers_for(spec, ncols):
    if spec.kind == "y":
        return ["scalar", "list1", "nd1", "nd2", "series"]
    if spec.family == "stream":
        out = ["nd2", "df", "list2", "nd1", "series", "list1"]
        if ncols == 1:
            out.append("scalar")
        return out
    out = ["nd2", "df", "list2"]
    if ncols == 1:
        out += ["nd1", "series", "list1"]
    return out


def present_x(spec, item, container, names=None):
    """item: row (stream) or list of rows (batch) -> fresh object of the given container kind"""
    arr = np.array([item] if spec.family == "stream" else item, dtype=float)
    names = names or NAMES[: arr.shape[1]]
    if not isinstance(names, str):
        names = list(names)[: arr.shape[1]]
    if container.endswith("_int"):
        # the same (integral) values carried by an integer dtype / python ints
        if not np.array_equal(arr, np.round(arr)):
            raise AssertionError("integer container for non-integral data")
        arr = arr.astype(np.int64)
        container = container[: -len("_int")]
    if container == "nd2":
        return arr
    if container == "df":
        if isinstance(names, str) and names == "default":
            return pd.DataFrame(arr)  # pandas' default labels 0..d-1
        return pd.DataFrame(arr, columns=names)
    if container == "list2":
        return arr.tolist()
    flat = arr[0] if spec.family == "stream" else arr[:, 0]
    if container == "nd1":
        return np.array(flat)
    if container == "series":
        return pd.Series(np.array(flat))
    if container == "list1":
        return flat.tolist()
    if container == "scalar":
        return float(flat[0])
    raise AssertionError(container)


def present_y(v, container):
    if container == "scalar":
        return v
    if container == "list1":
        return [v]
    if container == "nd1":
        return np.array([v])
    if container == "nd2":
        return np.array([[v]])
    if container == "series":
        return pd.Series([v])
    raise AssertionError(container)


def do_call(spec, det, obj, first, seed):
    np.random.seed(seed)
    if spec.kind == "y":
        return det.update(obj[0], obj[1])
    if spec.family == "batch" and first:
        return det.set_reference(obj)
    return det.update(obj)


def make_obj(spec, item, cont, naming="named", index_mode="default"):
    if spec.kind == "y":
        return (present_y(item[0], cont[0]), present_y(item[1], cont[1]))
    obj = present_x(spec, item, cont, names=("default" if naming == "default" else None))
    if isinstance(obj, (pd.DataFrame, pd.Series)) and index_mode != "default":
        n = len(obj)
        # the row labels of a DataFrame / Series carry no meaning for a detector: non-default, descending or repeated labels
        obj.index = {"offset": [100 + 3 * i for i in range(n)], "reversed": list(range(n, 0, -1)), "repeated": [7] * n}[index_mode]
    return obj


def build_fault(spec, case, ncols):
    f = case["fault"]
    kind = f["kind"]
    if kind == "y_multi":
        bad = [1, 0] if f["container"] == "list1" else np.array([1, 0])
        return (bad, 1) if f["which"] == "y_true" else (1, bad)
    base = case["items"][0]
    rows = np.array([base] if spec.family == "stream" else base, dtype=float)
    if kind in ("rows", "rows+cols", "rows+rename"):
        rows = np.vstack([rows[:1], rows[:1]]) if spec.family == "stream" else rows[:1]
    if kind in ("cols+", "rows+cols", "multi_uni"):
        rows = np.hstack([rows, rows[:, :1]])
    if kind == "cols-":
        rows = rows[:, :-1]
    naming = case.get("df_naming", "named")
    names = NAMES[: rows.shape[1]] if naming == "named" else None
    if kind in ("rename", "rows+rename"):
        names = OTHER[: rows.shape[1]]
    if kind == "rename_default":  # the other labelling convention: default labels vs. explicit names
        names = None if naming == "named" else NAMES[: rows.shape[1]]
    c = f["container"]
    if c == "df":
        return pd.DataFrame(rows, columns=names) if names is not None else pd.DataFrame(rows)
    if c == "list2":
        return rows.tolist()
    if c in ("nd1", "list1", "series") and spec.family == "stream" and rows.shape[0] == 1:
        # a 1-D container is ONE observation for a streaming detector: its length is the number of columns
        flat = rows[0]
        return np.array(flat) if c == "nd1" else (flat.tolist() if c == "list1" else pd.Series(np.array(flat)))
    return rows


def run(spec, case, containers, fault_pos=None, ctx=None):
    """Returns (trace of observations after accepted item calls, fault outcome)."""
    name = case["det"]
    with sut(detector=name):
        det = spec.make(case["params"])
    trace = []
    outcome = None
    items = case["items"]
    base = case["seed_base"]
    for i in range(len(items) + 1):
        if fault_pos is not None and i == fault_pos:
            obj = build_fault(spec, case, case["ncols"])
            try:
                with sut(detector=name, allow=(Exception,)):
                    do_call(spec, det, obj, i == 0, base + min(i, len(items) - 1))
                outcome = "accepted"
            except ValueError as e:
                outcome = "ValueError"
                if cat.is_domain_end(name, det, e):
                    outcome = "domain-end"  # the detector's own documented refusal of degenerate data, not input validation
            except Exception as e:  # noqa
                outcome = "other:" + type(e).__name__ + ":" + str(e)[:80]
            if outcome != "ValueError":
                return trace, outcome
        if i < len(items):
            obj = make_obj(spec, items[i], containers[i], case.get("df_naming", "named"), case.get("df_index", "default"))
            if name == "NNDVI" and i > 0 and not cat.nndvi_domain_ok(det, np.array(items[i], dtype=float)):
                return trace, outcome if outcome else "truncated"
            try:
                with sut(detector=name, allow=(ValueError,)):
                    do_call(spec, det, obj, i == 0, base + i)
            except ValueError as e:
                msg = str(e)
                if cat.is_domain_end(name, det, e):
                    return trace, outcome if outcome else "truncated"
                trace.append({"rejected": msg[:120]})
                return trace, outcome
            with sut(detector=name):
                trace.append(cat.observe(det))
    return trace, outcome


def fault_is_legal(spec, case, containers, ncols):
    """Is the malformed call actually legal at its position (nothing established yet)?"""
    f = case["fault"]
    kind, pos = f["kind"], f["pos"]
    if kind in ("rows", "rows+cols", "rows+rename", "y_multi"):
        return False
    if kind == "multi_uni":
        return False
    if kind in ("cols+", "cols-"):
        return pos == 0  # no width established yet
    if kind in ("rename", "rename_default"):
        # names are established by the first accepted DataFrame
        return not any(c.startswith("df") for c in containers[:pos])
    return False


def g10_region(spec, case, containers):
    f = case["fault"]
    return (
        spec.family == "batch"
        and f["kind"] in ("cols+", "cols-")
        and f["container"] == "df"
        and f["pos"] > 0
        and not any(c.startswith("df") for c in containers[: f["pos"]])
    )


def first_diff(a, b):
    for i, (x, y) in enumerate(zip(a, b)):
        if x != y:
            keys = sorted(k for k in set(x) | set(y) if x.get(k) != y.get(k))
            return i, {k: (x.get(k), y.get(k)) for k in keys[:4]}
    if len(a) != len(b):
        return min(len(a), len(b)), {"length": (len(a), len(b))}
    return None, None


def check_fault(case, ctx):
    name = case["det"]
    spec = cat.SPECS[name]
    ncols = case["ncols"]
    items = case["items"]
    containers = case["containers"]
    f = case["fault"]
    canon = [("scalar", "scalar")] * len(items) if spec.kind == "y" else ["nd2"] * len(items)
    sigd = dict(detector=name)

    t_canon, oc = run(spec, case, canon)
    t_clean, oc2 = run(spec, case, containers)
    # (iii) container metamorphism
    i, d = first_diff(t_canon, t_clean)
    if i is not None:
        raise Violation(
            "container-changes-output",
            f"{name}({case['params']}): containers {containers[: i + 1]} vs plain 2-D arrays: outputs differ after call {i}: {d}",
            aspect="container",
            **sigd,
        )
    if oc == "truncated":
        ctx.label("truncated-domain")
    # (i) the malformed call
    legal = fault_is_legal(spec, case, containers, ncols)
    if g10_region(spec, case, containers):
        if ctx.exclude_known:
            ctx.exclude("G10-batch")
            ctx.label(name, "fault:" + f["kind"])
            return
        sigd["region"] = "batch-width-dataframe-before-any-dataframe"
    if f["pos"] > len(t_clean) or (oc2 == "truncated" and f["pos"] >= len(t_clean)):
        ctx.label("fault-after-truncation")
        return
    t_fault, outcome = run(spec, case, containers, fault_pos=f["pos"])
    fdesc = f"{f['kind']}/{f.get('container', '')} at position {f['pos']} of {len(items)} (containers before: {containers[: f['pos']]})"
    if outcome == "domain-end":
        ctx.label("fault-after-truncation")
        return
    if legal:
        ctx.label("not-a-fault")
        if outcome != "accepted":
            raise Violation("legal-input-rejected", f"{name}({case['params']}): {fdesc} is legal there (nothing established yet) but: {outcome}", aspect="legal", fault=f["kind"], **sigd)
        ctx.label(name)
        return
    if outcome == "accepted":
        raise Violation("fault-accepted", f"{name}({case['params']}): malformed call {fdesc} was accepted", aspect="reject", fault=f["kind"], **sigd)
    if outcome != "ValueError":
        raise Violation("fault-wrong-exception", f"{name}({case['params']}): malformed call {fdesc} raised {outcome} instead of ValueError", aspect="reject", fault=f["kind"], **sigd)
    # (ii) no harm
    i, d = first_diff(t_clean, t_fault)
    if i is not None:
        raise Violation(
            "rejected-call-did-harm",
            f"{name}({case['params']}): after the rejected call {fdesc}, outputs of accepted call {i} differ from the run without it: {d}",
            aspect="harm",
            fault=f["kind"],
            **sigd,
        )
    ctx.label(name, "fault:" + f["kind"], f"{name}:{f['kind']}")
    if any(isinstance(c, str) and c.endswith("_int") for c in containers):
        ctx.label("integer-dtype-container")
    if case.get("df_index", "default") != "default" and any(isinstance(c, str) and (c.startswith("df") or c.startswith("series")) for c in containers):
        ctx.label("non-default-row-index")
    if f["pos"] == 0:
        ctx.label("fault-at-0")
    if 0 < f["pos"] < len(items) and f["pos"] >= 2 and containers[f["pos"] - 1] != containers[f["pos"] - 2]:
        ctx.label("fault-after-container-switch")
    if f["pos"] == 0 or "fault-after-container-switch" in ctx.labels:
        ctx.label("nontrivial")
    if any(o.get("state") == "drift" for o in t_clean[: f["pos"]]):
        ctx.label("fault-after-drift")


def strat_fault(names):
    def strat(tier):
        @st.composite
        def s(draw):
            name = draw(st.sampled_from(names))
            spec = cat.SPECS[name]
            p = draw(SMALL[name])
            ncols = draw(spec.ncols())
            if spec.kind == "y":
                items = draw(vs.pair_seq(min_segments=1, max_segments=3, seg_min=3, seg_max=10, max_total=24))
            elif spec.family == "stream":
                mx = 30 if name == "PCACD" else 20
                rows = draw(vs.row_stream(ncols, min_segments=1, max_segments=3, seg_min=3, seg_max=12, max_total=mx, spread=2, shift=6))
                items = cat._jitter(rows) if name == "PCACD" else rows
            else:
                items = draw(vs.batch_history(ncols, n_min=3, n_max=8, rows_min=6, rows_max=14, spread=2, shift=4, p_shift=0.5))
            avail = containers_for(spec, ncols)
            if spec.kind != "y" and name != "PCACD" and draw(st.integers(0, 3)) == 0:
                # integral data: integer dtypes / python ints are then equivalent presentations of the same values
                items = [[float(round(v)) for v in it] for it in items] if spec.family == "stream" else [[[float(round(v)) for v in r] for r in b] for b in items]
                avail = avail + [c + "_int" for c in avail]
            if spec.kind == "y":
                containers = [[draw(st.sampled_from(avail)), draw(st.sampled_from(avail))] for _ in items]
            else:
                # runs of the same container with occasional switches
                containers = []
                cur = draw(st.sampled_from(avail))
                for _ in items:
                    if draw(st.integers(0, 3)) == 0:
                        cur = draw(st.sampled_from(avail))
                    containers.append(cur)
            pos = draw(st.sampled_from([0, 0, 1, len(items)] + list(range(len(items) + 1))))
            if spec.kind == "y":
                fault = {"kind": "y_multi", "which": draw(st.sampled_from(["y_true", "y_pred"])), "container": draw(st.sampled_from(["list1", "nd1"])), "pos": pos}
            else:
                kinds = ["rows", "cols+", "rename", "rename_default", "rows+cols", "rows+rename"]
                if ncols >= 2:
                    kinds.append("cols-")
                if spec.univariate:
                    kinds = ["rows", "multi_uni", "multi_uni", "rename", "rename_default", "rows+rename", "rows+cols"]
                kind = draw(st.sampled_from(kinds))
                cont = "df" if "rename" in kind else draw(st.sampled_from(["nd2", "df", "list2"]))
                if spec.family == "stream" and kind in ("cols+", "cols-", "multi_uni") and draw(st.integers(0, 2)) == 0:
                    cont = draw(st.sampled_from(["nd1", "list1", "series"]))
                fault = {"kind": kind, "container": cont, "pos": pos}
            out = {"det": name, "params": p, "ncols": ncols, "items": items, "containers": containers, "fault": fault, "seed_base": draw(vs.seed_base)}
            if spec.kind != "y":
                out["df_naming"] = draw(st.sampled_from(["named", "named", "default"]))
                out["df_index"] = draw(st.sampled_from(["default", "default", "offset", "reversed", "repeated"]))
                if name != "PCACD" and draw(st.integers(0, 2)) == 0:
                    # the first few items hold integral values and arrive as integers (python ints / integer dtype),
                    # later ones are fractional floats
                    k = draw(st.integers(1, min(3, len(items))))
                    for i in range(k):
                        items[i] = [float(round(v)) for v in items[i]] if spec.family == "stream" else [[float(round(v)) for v in r] for r in items[i]]
                        if not containers[i].endswith("_int"):
                            containers[i] = containers[i] + "_int"
            return out

        return s()

    return strat


# ----------------------------------------------------------------------------
# enumerated grid: every detector x fault kind x fault container x position class x container scheme
# on a fixed deterministic history (the finite part of the quantifier is covered completely)
# ----------------------------------------------------------------------------
GRID_PARAMS = {
    "ADWIN": {"delta": 1.0, "max_buckets": 2, "new_sample_thresh": 2, "window_size_thresh": 2, "subwindow_size_thresh": 1},
    "ADWINAccuracy": {"delta": 1.0, "max_buckets": 2, "new_sample_thresh": 2, "window_size_thresh": 2, "subwindow_size_thresh": 1},
    "CUSUM": {"burn_in": 3, "threshold": 1},
    "PageHinkley": {"burn_in": 2, "threshold": 0.5},
    "DDM": {"n_threshold": 2},
    "EDDM": {"n_threshold": 1},
    "STEPD": {"window_size": 2, "alpha_warning": 0.3, "alpha_drift": 0.1},
    "LinearFourRates": {"burn_in": 2, "num_mc": 5, "detect_level": 0.1, "warning_level": 0.3},
    "KdqTreeStreaming": {"window_size": 3, "bootstrap_samples": 3, "count_ubound": 1, "alpha": 0.5, "persistence": 0},
    "PCACD": {"window_size": 8, "sample_period": 0.5, "divergence_metric": "intersection", "delta": 0.0},
    "KdqTreeBatch": {"bootstrap_samples": 3, "count_ubound": 2, "alpha": 0.5},
    "HDDDM": {"detect_batch": 1, "subsets": 2, "statistic": "stdev", "significance": 0.5},
    "CDBD": {"detect_batch": 2, "subsets": 2, "statistic": "stdev", "significance": 0.5},
    "NNDVI": {"k_nn": 2, "sampling_times": 4, "alpha": 0.5},
}


def grid_items(spec, name, ncols):
    def val(i, j):
        return ((i * 7 + j * 3) % 11) / 8.0 + j

    if spec.kind == "y":
        return [[1, 1 if (i % 5) else 0] if i < 7 else [1, 0 if (i % 3) else 1] for i in range(14)]
    if spec.family == "stream":
        n = 26 if name == "PCACD" else 14
        return [[val(i, j) + (8.0 if i >= n // 2 else 0.0) for j in range(ncols)] for i in range(n)]
    return [[[val(i + 13 * b, j) + (6.0 if b >= 3 else 0.0) for j in range(ncols)] for i in range(8 + b)] for b in range(6)]


def enum_grid(tier, shard, nshards):
    k = 0
    for name in cat.ALL14:
        spec = cat.SPECS[name]
        ncols = 0 if spec.kind == "y" else (1 if spec.univariate else (3 if name == "PCACD" else 2))
        items = grid_items(spec, name, ncols)
        L = len(items)
        if spec.kind == "y":
            faults = [{"kind": "y_multi", "which": w, "container": c} for w in ("y_true", "y_pred") for c in ("list1", "nd1")]
            schemes = {"scalar": [["scalar", "scalar"]] * L, "mixed": [[["scalar", "list1", "nd1", "nd2", "series"][(i + a) % 5] for a in (0, 2)] for i in range(L)]}
        else:
            kinds = ["rows", "multi_uni", "rename", "rename_default", "rows+rename", "rows+cols"] if spec.univariate else ["rows", "cols+", "cols-", "rename", "rename_default", "rows+cols", "rows+rename"]
            faults = [{"kind": kd, "container": c} for kd in kinds for c in (["df"] if "rename" in kd else ["nd2", "df", "list2"])]
            if spec.family == "stream":
                faults += [{"kind": kd, "container": c} for kd in kinds if kd in ("cols+", "cols-", "multi_uni") for c in ("nd1", "list1", "series")]
            schemes = {"nd2": ["nd2"] * L, "df": ["df"] * L, "list2": ["list2"] * L}
            if ncols == 1 or spec.family == "stream":
                schemes["1d"] = [["nd1", "series", "list1"][i % 3] for i in range(L)]
        positions = sorted({0, 1, 2, L // 2, L // 2 + 1, L - 1, L})
        for f in faults:
            for pos in positions:
                sch = dict(schemes)
                if spec.kind != "y":
                    sch["nd2-then-df"] = ["nd2"] * pos + ["df"] * (L - pos)
                    sch["df-then-nd2"] = ["df"] * max(1, pos // 2) + ["nd2"] * (L - max(1, pos // 2))
                for sname, containers in sch.items():
                    namings = ["named"] if (spec.kind == "y" or "df" not in "".join(map(str, containers))) else ["named", "default"]
                    for naming in namings:
                        if k % nshards == shard:
                            ff = dict(f)
                            ff["pos"] = pos
                            c = {"det": name, "params": GRID_PARAMS[name], "ncols": ncols, "items": items, "containers": containers, "fault": ff, "seed_base": 7, "scheme": sname}
                            if spec.kind != "y":
                                c["df_naming"] = naming
                            yield c
                        k += 1


def _desc(c):
    return {"det": c["det"], "params": c["params"], "n_calls": len(c["items"]), "containers": c["containers"], "fault": c["fault"]}


def _sub(name, dets, quick, thorough, shards=8):
    return SubCheck(name, check_fault, strategy=strat_fault(dets), nontrivial=lambda L: "nontrivial" in L, quick=quick, thorough=thorough, shards_quick=shards, describe=_desc)


PROPERTY = {
    "id": "C14",
    "level": "fault_enumeration",
    "rule": (
        "For each of the 14 Streaming/Batch detectors: a short valid history (3-30 calls, batch detectors start with set_reference) whose "
        "items are presented in drawn containers (scalar / list / 1-D / 2-D ndarray / Series / DataFrame as far as the shape allows, in runs "
        "with switches; DataFrames / Series may carry non-default, descending or repeated row labels; a quarter of the histories hold integral values and may also be presented with integer dtypes / python ints) and ONE malformed call injected at a drawn position 0..len: wrong row count, wrong column count (+1/-1, as ndarray, "
        "list or DataFrame, and for streaming detectors as a 1-D array / list / Series of the wrong length), renamed DataFrame columns (other explicit names, or pandas' default labels vs. explicit names), wrong rows combined with another width / other names, multi-column data to a "
        "univariate detector, y with two observations. Oracles: (i) the malformed call raises ValueError (inputs that are legal because "
        "nothing is established yet must be accepted); (ii) the observations after every accepted call equal those of the run without the "
        "malformed call (rejected call seeded like the next accepted one); (iii) the run with the drawn containers equals the run with plain "
        "2-D arrays. Non-trivial = fault at position 0 or right after a container switch; labels count every (detector, fault kind) pair."
    ),
    "assumptions": [
        "MD3 (own protocol, C19) and ensembles are not in this property's domain",
        "the state right after a rejected call is not compared (a pending post-drift reset may legitimately run early)",
        "known finding G10-batch (BatchDetector accepts a wrong-width DataFrame when no DataFrame was seen before) is excluded by construction and counted",
    ],
    "subchecks": [
        SubCheck("fault_grid", check_fault, enumerate=enum_grid, nontrivial=lambda L: "nontrivial" in L or "fault-after-drift" in L, shards_quick=16, shards_thorough=16, exhaustive=True, describe=_desc),
        _sub("stream_x", ["ADWIN", "CUSUM", "PageHinkley", "KdqTreeStreaming", "PCACD"], 900, 18000),
        _sub("stream_y", ["ADWINAccuracy", "DDM", "EDDM", "STEPD", "LinearFourRates"], 500, 10000),
        _sub("batch", ["KdqTreeBatch", "HDDDM", "CDBD", "NNDVI"], 1100, 22000, shards=16),
    ],
}
