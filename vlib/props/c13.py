"""C13 - every election returns exactly what its voting rule says.

Stateless elections: complete enumeration of {None, warning, drift}^n x parameters.
ConfirmedElection: explicit-state exploration (breadth first over pairs
(implementation counters, model state), every vote vector from every reachable
pair) plus random long vote histories for larger n.
"""
import copy
import itertools
from types import SimpleNamespace as NS

from hypothesis import strategies as st

from vlib.runner import SubCheck, Violation, sut

STATES = [None, "warning", "drift"]
ENC = {None: 0, "warning": 1, "drift": 2}


def _elections():
    from menelaus.ensemble import (
        ConfirmedElection,
        MinimumApprovalElection,
        OrderedApprovalElection,
        SimpleMajorityElection,
    )

    return SimpleMajorityElection, MinimumApprovalElection, OrderedApprovalElection, ConfirmedElection


def dets(vec):
    return [NS(drift_state=STATES[c]) for c in vec]


# ---------------------------------------------------------------- stateless
def ref_simple(vec):
    k = sum(1 for c in vec if c == 2)
    return "drift" if 2 * k > len(vec) else None


def ref_min(vec, a):
    k = sum(1 for c in vec if c == 2)
    return "drift" if k >= a else None


def ref_ordered(vec, a, c):
    k = sum(1 for x in vec if x == 2)
    return "drift" if k >= a + c else None


def check_stateless(case, ctx):
    Simple, Min, Ordered, _ = _elections()
    vec = case["vec"]
    n = len(vec)
    k = sum(1 for c in vec if c == 2)

    def call(name, el, v, **sig):
        with sut(election=name):
            r = el(dets(v))
        if r is not None and r != "drift":
            raise Violation("bad-return-value", f"{name}{sig} on {v} returned {r!r}", election=name)
        return r

    def expect(name, got, want, v, **p):
        if got != want:
            raise Violation(
                "wrong-verdict", f"{name}{p} on {[STATES[c] for c in v]}: got {got!r}, rule says {want!r}", election=name
            )

    # every vector obtained by turning one more member to drift
    ups = [vec[:i] + [2] + vec[i + 1 :] for i in range(n) if vec[i] != 2]

    r = call("SimpleMajority", Simple(), vec)
    expect("SimpleMajority", r, ref_simple(vec), vec)
    if r == "drift":
        for u in ups:
            if call("SimpleMajority", Simple(), u) != "drift":
                raise Violation("not-monotone", f"SimpleMajority retracts drift {vec}->{u}", election="SimpleMajority")
    if 2 * k == n or 2 * k == n + 1 or 2 * k == n - 1:
        ctx.label("at-majority-threshold")
    for a in range(1, n + 2):
        el = Min(a)
        r = call("MinimumApproval", el, vec, a=a)
        expect("MinimumApproval", r, ref_min(vec, a), vec, a=a)
        # same object must be reusable (stateless)
        r2 = call("MinimumApproval", el, vec, a=a)
        expect("MinimumApproval(second call)", r2, ref_min(vec, a), vec, a=a)
        if r == "drift":
            for u in ups:
                if call("MinimumApproval", Min(a), u) != "drift":
                    raise Violation("not-monotone", f"MinimumApproval({a}) retracts {vec}->{u}", election="MinimumApproval")
        if k == a or k == a - 1:
            ctx.label("at-approval-threshold")
        for c in range(0, n + 2):
            el = Ordered(a, c)
            r = call("OrderedApproval", el, vec, a=a, c=c)
            expect("OrderedApproval", r, ref_ordered(vec, a, c), vec, a=a, c=c)
            r2 = call("OrderedApproval", el, vec, a=a, c=c)
            expect("OrderedApproval(second call)", r2, ref_ordered(vec, a, c), vec, a=a, c=c)
            if r == "drift":
                for u in ups:
                    if call("OrderedApproval", Ordered(a, c), u) != "drift":
                        raise Violation(
                            "not-monotone", f"OrderedApproval({a},{c}) retracts {vec}->{u}", election="OrderedApproval"
                        )
    if n >= 1:
        ctx.label("n>=1")
    ctx.label(f"n={n}")


def enum_stateless(tier, shard, nshards):
    nmax = 6 if tier == "quick" else 7
    i = 0
    for n in range(0, nmax + 1):
        for vec in itertools.product([0, 1, 2], repeat=n):
            if i % nshards == shard:
                yield {"vec": list(vec)}
            i += 1


# ---------------------------------------------------------------- confirmed
def model_step(rem, vec, sens, wt):
    """Reference rule written from the statement.  rem[i] = number of further
    calls in which member i still counts as a voter (0 = idle)."""
    nd = nw = 0
    new = list(rem)
    for i, s in enumerate(vec):
        if rem[i] == 0:
            if s == 2:  # newly reports drift: voter now and for the next wt calls
                nd += 1
                new[i] = wt
            elif s == 1:
                nw += 1
        else:
            if s == 1:  # warning while waiting: counted as warning, no waiting time used
                nw += 1
            else:
                nd += 1
                new[i] = rem[i] - 1
    ret = "drift" if nd >= sens else ("warning" if nd + nw >= sens else None)
    return ret, new


def run_confirmed(n, wt, sens, votes, ctx=None):
    """Step implementation and model in lockstep along ``votes``."""
    _, _, _, Confirmed = _elections()
    with sut(election="Confirmed"):
        el = Confirmed(sensitivity=sens, wait_time=wt)
    rem = [0] * n
    for step, vec in enumerate(votes):
        was_waiting = any(r > 0 for r in rem)
        want, rem2 = model_step(rem, vec, sens, wt)
        with sut(election="Confirmed"):
            got = el(dets(vec))
        if got != want:
            raise Violation(
                "wrong-verdict",
                f"Confirmed(sens={sens},wait={wt}) n={n} step {step} votes={[[STATES[c] for c in v] for v in votes[: step + 1]]}: got {got!r}, rule says {want!r} (model waits before call: {rem})",
                election="Confirmed",
            )
        cnt = el.wait_period_counters
        if cnt is None or len(cnt) != n or any((c < 0 or c > wt) for c in cnt):
            raise Violation(
                "counter-out-of-range", f"wait_period_counters={cnt} wait_time={wt} after step {step}", election="Confirmed"
            )
        if ctx is not None:
            if was_waiting and 1 in vec:
                ctx.label("warning-while-waiting")
            if was_waiting:
                ctx.label("from-nonzero-counter")
        rem = rem2
    return el, rem


def check_confirmed_path(case, ctx):
    run_confirmed(case["n"], case["wt"], case["sens"], case["path"] + [case["vote"]], ctx)
    ctx.label(*case.get("_labels", []))


def enum_confirmed(tier, shard, nshards):
    _, _, _, Confirmed = _elections()
    nmax, wmax = (4, 3) if tier == "quick" else (5, 3)
    configs = [(n, wt, sens) for n in range(1, nmax + 1) for wt in range(0, wmax + 1) for sens in range(1, n + 2)]
    for ci, (n, wt, sens) in enumerate(configs):
        if ci % nshards != shard:
            continue
        try:
            e0 = Confirmed(sensitivity=sens, wait_time=wt)
        except Exception:
            yield {"n": n, "wt": wt, "sens": sens, "path": [], "vote": [0] * n}
            continue
        def full_state(el):
            # every attribute of the election object, so that state a changed implementation keeps elsewhere
            # (caches, extra counters) also distinguishes BFS nodes
            return repr(sorted((k_, repr(v)) for k_, v in vars(el).items()))

        start = (e0, tuple([0] * n), [])
        seen = {(full_state(e0), tuple([0] * n))}
        cap = 20000  # a changed implementation with unbounded hidden state must not make the search endless
        frontier = collections_deque([start])
        vectors = [list(v) for v in itertools.product([0, 1, 2], repeat=n)]
        while frontier:
            el, rem, path = frontier.popleft()
            for vec in vectors:
                labels = []
                ok = True
                try:
                    e2 = copy.deepcopy(el)
                    got = e2(dets(vec))
                    want, rem2 = model_step(list(rem), vec, sens, wt)
                    key = (full_state(e2), tuple(rem2))
                    ok = got == want
                except Exception:
                    ok = False
                if ok and key not in seen and len(seen) < cap:
                    seen.add(key)
                    labels.append("new-state")
                    frontier.append((e2, tuple(rem2), path + [vec]))
                yield {"n": n, "wt": wt, "sens": sens, "path": path, "vote": vec, "_labels": labels}


def collections_deque(x):
    import collections

    return collections.deque(x)


def check_confirmed_random(case, ctx):
    n, wt, sens = case["n"], case["wt"], case["sens"]
    votes = case["votes"]
    run_confirmed(n, wt, sens, votes, ctx)
    ctx.label(f"n={n}")


def strat_confirmed_random(tier):
    @st.composite
    def s(draw):
        n = draw(st.sampled_from([1, 2, 3, 5, 6, 7]))
        wt = draw(st.integers(0, 5))
        sens = draw(st.integers(1, n + 1))
        vote = st.lists(st.sampled_from([0, 0, 1, 2]), min_size=n, max_size=n)
        votes = draw(st.lists(vote, min_size=1, max_size=40))
        return {"n": n, "wt": wt, "sens": sens, "votes": votes}

    return s()


PROPERTY = {
    "id": "C13",
    "level": "exploration",
    "rule": (
        "stateless: every vector of {None,warning,drift}^n (n<=6 quick, <=7 thorough) x SimpleMajority, "
        "MinimumApproval(a=1..n+1), OrderedApproval(a=1..n+1,c=0..n+1), compared with the counting rule and "
        "checked for monotonicity over all one-coordinate upgrades; non-trivial = drift count within one of a threshold. "
        "confirmed_bfs: breadth-first exploration of all reachable (implementation counters, model waits) pairs for "
        "n<=4 (5 thorough), wait_time 0..3, sensitivity 1..n+1, every vote vector from every reachable pair; one case = "
        "shortest path + vote, replayed from a fresh election against the reference rule; non-trivial = transition taken "
        "from a state with a waiting member. confirmed_random: Hypothesis vote histories for n=5..7."
    ),
    "assumptions": [
        "elections read only .drift_state of their detectors (stand-in objects are used)",
        "reference rules are written from the property statement with integer arithmetic",
    ],
    "subchecks": [
        SubCheck(
            "stateless_exhaustive",
            check_stateless,
            enumerate=enum_stateless,
            nontrivial=lambda L: "at-majority-threshold" in L or "at-approval-threshold" in L,
            shards_quick=8,
            shards_thorough=16,
            exhaustive=True,
        ),
        SubCheck(
            "confirmed_bfs",
            check_confirmed_path,
            enumerate=enum_confirmed,
            nontrivial=lambda L: "from-nonzero-counter" in L,
            shards_quick=16,
            shards_thorough=16,
            exhaustive=True,
        ),
        SubCheck(
            "confirmed_random",
            check_confirmed_random,
            strategy=strat_confirmed_random,
            nontrivial=lambda L: "warning-while-waiting" in L,
            quick=400,
            thorough=40000,
            shards_quick=4,
        ),
    ],
}
