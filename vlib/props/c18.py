"""C18 - batch detectors ignore the order of rows inside a batch (metamorphic)."""
import numpy as np
from hypothesis import strategies as st

from vlib import catalogue as cat
from vlib import strategies as vs
from vlib.runner import SubCheck, Violation, sut

TOL = 1e-12


def permute(batch, perm):
    return [batch[j] for j in perm]


@st.composite
def with_perms(draw, case):
    perms = []
    for b in case["items"]:
        n = len(b)
        if draw(st.integers(0, 5)) == 0:
            perms.append(list(range(n)))
        else:
            perms.append(draw(st.permutations(list(range(n)))))
    case["perms"] = [list(p) for p in perms]
    return case


def _trim(case, i):
    c = dict(case)
    c["items"] = case["items"][: i + 1]
    c["perms"] = case["perms"][: i + 1]
    return c


def _labels(ctx, case, ndrift):
    nonid = any(p != list(range(len(p))) and len({tuple(r) for r in b}) >= 2 for p, b in zip(case["perms"], case["items"]))
    if nonid:
        ctx.label("non-identity-permutation")
    if ndrift:
        ctx.label("drift")
    if nonid and ndrift:
        ctx.label("nontrivial")
    if len({len(b) for b in case["items"]}) > 1:
        ctx.label("unequal-batch-sizes")


# ---------------------------------------------------------------------- HDM
def check_hdm(case, ctx):
    name = case["det"]
    spec = cat.SPECS[name]
    p = case["params"]
    base = case["seed_base"]
    db = p["detect_batch"]
    with sut(detector=name):
        a = spec.make(p)
        b = spec.make(p)
    ndrift = 0
    for i, (B, perm) in enumerate(zip(case["items"], case["perms"])):
        X = np.array(B, dtype=float)
        Y = np.array(permute(B, perm), dtype=float)
        with sut(detector=name):
            np.random.seed(base + i)
            (a.set_reference if i == 0 else a.update)(X)
            np.random.seed(base + i)
            (b.set_reference if i == 0 else b.update)(Y)
        if i == 0:
            continue
        da, dbb = float(a.current_distance), float(b.current_distance)
        if not abs(da - dbb) <= TOL:
            raise Violation(
                "distance-depends-on-row-order",
                f"{name}({p}) batch {i}: distance {da} for the original rows, {dbb} for the permuted rows",
                detector=name,
                case=_trim(case, i),
            )
        sa, sb = a.drift_state, b.drift_state
        if db == 3:
            tb = a.total_batches
            if tb in a.thresholds and tb in a.epsilon_values:
                beta_a, beta_b = a.thresholds[tb], b.thresholds.get(tb)
                if beta_b is None or not abs(beta_a - beta_b) <= 1e-9 * (1 + abs(beta_a)):
                    raise Violation(
                        "threshold-depends-on-row-order", f"{name}({p}) batch {i}: beta {beta_a} vs {beta_b}", detector=name, case=_trim(case, i)
                    )
                if abs(a.epsilon_values[tb] - beta_a) <= 1e-9 * (1 + abs(beta_a)):
                    ctx.label("truncated-margin-in-band")
                    break
            if sa != sb:
                raise Violation(
                    "decision-depends-on-row-order", f"{name}({p}) batch {i}: state {sa!r} vs {sb!r} for permuted rows", detector=name, case=_trim(case, i)
                )
        elif sa != sb:
            ctx.label("stopped-at-bootstrap-dependent-decision")
            break
        if a.reference_n != b.reference_n:
            raise Violation("reference-size-differs", f"{name} batch {i}: reference_n {a.reference_n} vs {b.reference_n}", detector=name, case=_trim(case, i))
        ndrift += sa == "drift"
    ctx.label(name, f"detect_batch={db}")
    _labels(ctx, case, ndrift)


def strat_hdm(tier):
    @st.composite
    def s(draw):
        name = draw(st.sampled_from(["HDDDM", "CDBD"]))
        spec = cat.SPECS[name]
        p = draw(spec.params())
        p["detect_batch"] = draw(st.sampled_from([2, 3, 3]))
        ncols = draw(spec.ncols())
        items = draw(vs.batch_history(ncols, n_min=4, n_max=10, rows_min=4, rows_max=24, spread=2, shift=4, p_shift=0.35))
        c = {"det": name, "params": p, "ncols": ncols, "items": items, "seed_base": draw(vs.seed_base)}
        return draw(with_perms(c))

    return s()


# ---------------------------------------------------------------------- kdq
def leaf_kl(rows):
    """divergence recomputed from to_plotly_dataframe rows (pre-order: a row is a leaf iff the next row is not deeper)"""
    ref, test = [], []
    for j, (depth, cell, diff) in enumerate(rows):
        if j + 1 == len(rows) or rows[j + 1][0] <= depth:
            ref.append(cell)
            test.append(cell + diff)
    r = np.array(ref, dtype=float)
    t = np.array(test, dtype=float)
    pr = (r + 0.5) / (r.sum() + len(r) / 2)
    pt = (t + 0.5) / (t.sum() + len(t) / 2)
    return float(np.sum(pr * np.log(pr / pt)))


def check_kdq(case, ctx):
    from menelaus.data_drift import KdqTreeBatch

    p = case["params"]
    base = case["seed_base"]
    with sut(detector="KdqTreeBatch"):
        a = KdqTreeBatch(**p)
        b = KdqTreeBatch(**p)
    ndrift = 0
    for i, (B, perm) in enumerate(zip(case["items"], case["perms"])):
        X = np.array(B, dtype=float)
        Y = np.array(permute(B, perm), dtype=float)
        with sut(detector="KdqTreeBatch"):
            np.random.seed(base + i)
            (a.set_reference if i == 0 else a.update)(X)
            np.random.seed(base + i)
            (b.set_reference if i == 0 else b.update)(Y)
            ra = [[int(x), int(y), int(z)] for x, y, z in zip(*[a.to_plotly_dataframe()[c] for c in ("depth", "cell_count", "count_diff")])]
            rb = [[int(x), int(y), int(z)] for x, y, z in zip(*[b.to_plotly_dataframe()[c] for c in ("depth", "cell_count", "count_diff")])]
        if i == 0:
            continue
        ka, kb = leaf_kl(ra), leaf_kl(rb)
        if ra != rb or not abs(ka - kb) <= TOL:
            raise Violation(
                "divergence-depends-on-row-order",
                f"KdqTreeBatch({p}) batch {i}: leaf divergence {ka} vs {kb} (node counts differ: {ra != rb})",
                detector="KdqTreeBatch",
                case=_trim(case, i),
            )
        if a.drift_state != b.drift_state:
            raise Violation(
                "decision-depends-on-row-order",
                f"KdqTreeBatch({p}) batch {i}: state {a.drift_state!r} vs {b.drift_state!r} for permuted rows",
                detector="KdqTreeBatch",
                case=_trim(case, i),
            )
        ndrift += a.drift_state == "drift"
    ctx.label("KdqTreeBatch")
    _labels(ctx, case, ndrift)


def strat_kdq(tier):
    @st.composite
    def s(draw):
        spec = cat.SPECS["KdqTreeBatch"]
        p = draw(spec.params())
        ncols = draw(spec.ncols())
        items = draw(vs.batch_history(ncols, n_min=3, n_max=8, rows_min=8, rows_max=40, spread=2, shift=3, denom=16, p_shift=0.4))
        return draw(with_perms({"det": "KdqTreeBatch", "params": p, "items": items, "seed_base": draw(vs.seed_base)}))

    return s()


# -------------------------------------------------------------------- NNDVI
def check_nndvi(case, ctx):
    from menelaus.data_drift import NNDVI
    from menelaus.partitioners import NNSpacePartitioner

    p = case["params"]
    base = case["seed_base"]
    with sut(detector="NNDVI"):
        a = NNDVI(**p)
        b = NNDVI(**p)
    ndrift = 0
    for i, (B, perm) in enumerate(zip(case["items"], case["perms"])):
        X = np.array(B, dtype=float)
        Y = np.array(permute(B, perm), dtype=float)
        if i == 0:
            with sut(detector="NNDVI"):
                a.set_reference(X)
                b.set_reference(Y)
            continue
        if not cat.nndvi_domain_ok(a, X):
            ctx.label("truncated-k>distinct")
            break
        with sut(detector="NNDVI"):
            pa = NNSpacePartitioner(p["k_nn"])
            pa.build(np.asarray(a.reference_batch), X)
            pb = NNSpacePartitioner(p["k_nn"])
            pb.build(np.asarray(b.reference_batch), Y)
            da = float(NNSpacePartitioner.compute_nnps_distance(pa.nnps_matrix, pa.v1, pa.v2))
            dbb = float(NNSpacePartitioner.compute_nnps_distance(pb.nnps_matrix, pb.v1, pb.v2))
        if not abs(da - dbb) <= TOL:
            raise Violation(
                "distance-depends-on-row-order",
                f"NNDVI({p}) batch {i} (reference {len(a.reference_batch)} rows, batch {len(X)} rows): NNPS distance {da} vs {dbb} for permuted rows",
                detector="NNDVI",
                case=_trim(case, i),
            )
        with sut(detector="NNDVI"):
            np.random.seed(base + i)
            a.update(X)
            np.random.seed(base + i)
            b.update(Y)
        if a.drift_state != b.drift_state:
            raise Violation(
                "decision-depends-on-row-order",
                f"NNDVI({p}) batch {i}: state {a.drift_state!r} vs {b.drift_state!r} for permuted rows (distance {da})",
                detector="NNDVI",
                case=_trim(case, i),
            )
        ndrift += a.drift_state == "drift"
    ctx.label("NNDVI")
    _labels(ctx, case, ndrift)


def strat_nndvi(tier):
    @st.composite
    def s(draw):
        spec = cat.SPECS["NNDVI"]
        p = draw(spec.params())
        ncols = draw(spec.ncols())
        items = draw(vs.batch_history(ncols, n_min=3, n_max=8, rows_min=4, rows_max=20, spread=2, shift=3, denom=4, p_shift=0.4))
        return draw(with_perms({"det": "NNDVI", "params": p, "items": items, "seed_base": draw(vs.seed_base)}))

    return s()


# ------------------------------------------------------------ large batches
def expand(rows, k, coded=False):
    """k copies of a small block (shifted by small amounts unless the data are integer codes): keeps the drawn
    data small while the batch has thousands of rows"""
    if coded:
        return [list(r) for j in range(k) for r in rows]
    return [[v + (j % 7) / 64.0 for v in r] for j in range(k) for r in rows]


def big_batch(spec):
    c = spec.get("coded", False)
    return expand(spec["a"], spec["ka"], c) + expand(spec["b"], spec["kb"], c)


def reorder(rows, how):
    if how == "reverse":
        return rows[::-1]
    if how.startswith("rotate:"):
        r = int(how.split(":")[1]) % max(1, len(rows))
        return rows[r:] + rows[:r]
    if how == "interleave":
        h = len(rows) // 2
        out = []
        for i in range(h):
            out += [rows[i], rows[h + i]]
        return out + rows[2 * h :]
    return rows


def check_kdq_large(case, ctx):
    from menelaus.data_drift import KdqTreeBatch

    p = case["params"]
    base = case["seed_base"]
    with sut(detector="KdqTreeBatch"):
        a = KdqTreeBatch(**p)
        b = KdqTreeBatch(**p)
    ndrift = 0
    sizes = []
    for i, (spec, how) in enumerate(zip(case["batches"], case["orders"])):
        rows = big_batch(spec)
        sizes.append(len(rows))
        X = np.array(rows, dtype=float)
        Y = np.array(reorder(rows, how), dtype=float)
        with sut(detector="KdqTreeBatch"):
            np.random.seed(base + i)
            (a.set_reference if i == 0 else a.update)(X)
            np.random.seed(base + i)
            (b.set_reference if i == 0 else b.update)(Y)
            ra = [[int(x), int(y), int(z)] for x, y, z in zip(*[a.to_plotly_dataframe()[c] for c in ("depth", "cell_count", "count_diff")])]
            rb = [[int(x), int(y), int(z)] for x, y, z in zip(*[b.to_plotly_dataframe()[c] for c in ("depth", "cell_count", "count_diff")])]
        if i == 0:
            continue
        ka, kb = leaf_kl(ra), leaf_kl(rb)
        if ra != rb or not abs(ka - kb) <= TOL:
            c = dict(case)
            c["batches"] = case["batches"][: i + 1]
            c["orders"] = case["orders"][: i + 1]
            raise Violation(
                "divergence-depends-on-row-order",
                f"KdqTreeBatch({p}) batch {i} ({len(rows)} rows, reordered by {how}): leaf divergence {ka} vs {kb}",
                detector="KdqTreeBatch",
                case=c,
            )
        if a.drift_state != b.drift_state:
            raise Violation("decision-depends-on-row-order", f"KdqTreeBatch({p}) batch {i} ({len(rows)} rows): {a.drift_state!r} vs {b.drift_state!r}", detector="KdqTreeBatch")
        if sum(r[1] + r[2] for r in ra if r[0] == 0) != len(rows):
            raise Violation("kdq-large-batch-count", f"KdqTreeBatch({p}) batch {i}: root test count {ra[0][1] + ra[0][2]} for a batch of {len(rows)} rows", detector="KdqTreeBatch")
        ndrift += a.drift_state == "drift"
    ctx.label("KdqTreeBatch-large", f"max-rows>{(max(sizes) // 1024) * 1024}")
    if max(sizes[1:] or [0]) > 4096:
        ctx.label("nontrivial")
    if ndrift:
        ctx.label("drift")


def strat_kdq_large(tier):
    @st.composite
    def s(draw):
        d = draw(st.integers(1, 2))
        p = {"alpha": draw(st.sampled_from([0.05, 0.2, 0.5])), "bootstrap_samples": draw(st.integers(3, 5)), "count_ubound": draw(st.sampled_from([20, 50, 200, 1000]))}
        coded = draw(st.booleans())  # low-cardinality integer codes: block a uses few codes, block b many
        nb = draw(st.integers(2, 4))
        batches, orders = [], []
        for i in range(nb):
            if coded:
                a = draw(st.lists(st.lists(st.integers(0, 3).map(float), min_size=d, max_size=d), min_size=8, max_size=24))
                b = draw(st.lists(st.lists(st.integers(0, 60).map(float), min_size=d, max_size=d), min_size=16, max_size=24))
            else:
                a = draw(vs.batch(d, 8, 24, [draw(st.sampled_from([0, 0, 3])) for _ in range(d)], 2, 16))
                b = draw(vs.batch(d, 8, 24, [0] * d, 2, 16))
            target = draw(st.sampled_from([300, 1025, 2049, 4097, 4200, 6000, 8193, 9000, 16385, 20000, 33000, 66000])) if i else draw(st.sampled_from([200, 2000, 2100, 5000, 17000]))
            ka = max(1, int(target * draw(st.sampled_from([0.2, 0.3, 0.5])) / len(a)))
            kb = max(1, (target - ka * len(a)) // len(b) + 1)
            batches.append({"a": a, "ka": ka, "b": b, "kb": kb, "coded": coded})
            orders.append(draw(st.sampled_from(["reverse", "reverse", "interleave", "rotate:%d" % draw(st.integers(1, 5000))])))
        return {"params": p, "batches": batches, "orders": orders, "seed_base": draw(vs.seed_base)}

    return s()


def _desc_large(c):
    return {"params": c["params"], "batch_rows": [len(b["a"]) * b["ka"] + len(b["b"]) * b["kb"] for b in c["batches"]], "orders": c["orders"]}


def _desc(c):
    return {"det": c["det"], "params": c["params"], "batch_sizes": [len(b) for b in c["items"]], "perm_of_first_test_batch": c["perms"][1] if len(c["perms"]) > 1 else None}


PROPERTY = {
    "id": "C18",
    "level": "exploration",
    "rule": (
        "Batch histories as in C07/C09/C10 plus, for the reference and every batch, a row permutation drawn with st.permutations "
        "(identity in 1/6 of the batches). Original and permuted runs share the per-call numpy seed. HDDDM/CDBD (detect_batch 2/3): "
        "current_distance equal within 1e-12 on every batch; detect_batch=3: thresholds and the full decision sequence equal (a batch whose "
        "public margin |epsilon-beta| is within 1e-9 ends the comparison); detect_batch=2: compared up to the first batch whose "
        "bootstrap-dependent decisions differ. KdqTreeBatch: node counts from to_plotly_dataframe() identical, leaf divergence equal, "
        "decisions equal; kdq_batch_large repeats this with batches of 300-66000 rows (two tiled blocks of continuous values or integer codes, sizes around 1024 / 2048 / 4096 / 8192 / 16384 / 32768 / 65536, reordered by reversal, rotation or interleaving). NNDVI: NNPS distance (recomputed through the public partitioner) equal, decisions equal. Non-trivial = a "
        "non-identity permutation of a batch with >= 2 distinct rows in a history with >= 1 drift."
    ),
    "assumptions": ["HDDDM/CDBD detect_batch=1 is outside the property (reference split by position)"],
    "subchecks": [
        SubCheck("hdm", check_hdm, strategy=strat_hdm, nontrivial=lambda L: "nontrivial" in L, quick=300, thorough=12000, shards_quick=8, describe=_desc),
        SubCheck("kdq_batch", check_kdq, strategy=strat_kdq, nontrivial=lambda L: "nontrivial" in L, quick=150, thorough=6000, shards_quick=8, describe=_desc),
        SubCheck("kdq_batch_large", check_kdq_large, strategy=strat_kdq_large, nontrivial=lambda L: "nontrivial" in L, quick=48, thorough=1600, shards_quick=16, describe=_desc_large),
        SubCheck("nndvi", check_nndvi, strategy=strat_nndvi, nontrivial=lambda L: "nontrivial" in L, quick=250, thorough=10000, shards_quick=8, describe=_desc),
    ],
}
