"""C03 - ADWIN keeps exact statistics of its adaptive window and cuts it by its rule;
ADWINAccuracy == ADWIN applied to 1{y_true == y_pred}."""
from hypothesis import strategies as st

from vlib import strategies as vs
from vlib.models.adwin import SCALE, AdwinModel
from vlib.runner import Decoy, SubCheck, Violation, sut
from vlib.tolerant import Forker

PKEYS = ("delta", "max_buckets", "new_sample_thresh", "window_size_thresh", "subwindow_size_thresh", "conservative_bound")


def params_strategy(small=False):
    return st.fixed_dictionaries(
        {
            "delta": st.sampled_from([0.002, 0.05, 0.3, 0.9, 1.0]),
            "max_buckets": st.sampled_from([1, 1, 2, 2, 3, 4, 5, 6]),
            "new_sample_thresh": st.sampled_from([1, 1, 2, 3, 5, 8, 16, 32, 33]),
            "window_size_thresh": st.integers(0, 12 if small else 40),
            "subwindow_size_thresh": st.integers(1, 4 if small else 8),
            "conservative_bound": st.sampled_from([False, False, True]),
        }
    )


def recs_norm(r):
    return tuple(None if v is None else int(v) for v in list(r))


def check_model(case, ctx):
    from menelaus.change_detection import ADWIN

    p = case["params"]
    xs = case["xs"]
    with sut(detector="ADWIN"):
        det = ADWIN(**p)
    decoy = Decoy(lambda: ADWIN(**p), lambda d, v: d.update(v))
    p_other = dict(p)
    p_other["conservative_bound"] = not p["conservative_bound"]
    decoy2 = Decoy(lambda: ADWIN(**p_other), lambda d, v: d.update(v), every=1)  # same stream, other bound
    # a third object with the other bound sees the whole stream before the judged object starts: whatever it may have
    # left behind outside itself (class attributes, module caches) is then in place for every window size
    decoy3 = Decoy(lambda: ADWIN(**p_other), lambda d, v: d.update(v), every=1)
    for x_ in xs:
        decoy3.step(x_)
    fk = Forker(AdwinModel(*[p[k] for k in PKEYS]), copier=lambda m: m.clone())
    ndrift = 0
    for i, x in enumerate(xs):
        k = int(round(x * SCALE))
        assert k / SCALE == x, "generator must stay on the grid"
        decoy.step(40.0 - x)
        decoy2.step(x)
        with sut(detector="ADWIN"):
            det.update(x)
            obs = {
                "drift": det.drift_state == "drift",
                "state": det.drift_state,
                "recs": recs_norm(det.retraining_recs),
                "mean": float(det.mean()),
                "var": float(det.variance()),
                "total": det.total_samples,
            }
        if obs["state"] not in (None, "drift"):
            raise Violation("bad-state", f"ADWIN drift_state={obs['state']!r}", detector="ADWIN")

        def stepfn(m, ch):
            o = m.step(k, ch)
            o["mean"] = float(m.mean())
            o["var"] = float(m.variance())
            o["mtol"] = m.mean_tol()
            o["vtol"] = m.var_tol()
            return o

        def accept(o):
            if o["drift"] != obs["drift"]:
                return False
            if o["drift"] and tuple(o["recs"]) != obs["recs"]:
                return False
            if not o["drift"] and obs["recs"] != (None, None):
                return False
            return abs(o["mean"] - obs["mean"]) <= o["mtol"] and abs(o["var"] - obs["var"]) <= o["vtol"]

        verdict, outs = fk.advance(stepfn, accept)
        if verdict == "mismatch":
            brief = [{k2: o[k2] for k2 in ("drift", "recs", "W", "mean", "var")} for o in outs[:4]]
            kinds = []
            if all(o["drift"] != obs["drift"] for o in outs):
                kinds.append("decision")
            elif all(o["drift"] == obs["drift"] and (tuple(o["recs"] or (None, None)) != obs["recs"]) for o in outs):
                kinds.append("retraining_recs")
            else:
                kinds.append("statistics")
            raise Violation(
                "adwin-" + kinds[0] + "-mismatch",
                f"ADWIN({p}) after {i + 1} samples: implementation {obs}, reference window admits {brief}",
                detector="ADWIN",
                case={"params": p, "xs": xs[: i + 1]},
            )
        if verdict == "overflow":
            ctx.label("truncated-ambiguous")
            return
        if obs["total"] != i + 1:
            raise Violation("total-samples", f"total_samples={obs['total']} after {i + 1} updates", detector="ADWIN")
        o = outs[0]
        if o["drift"]:
            ndrift += 1
            ctx.label("shrink")
            if o["rows_at_drop"] >= 3:
                ctx.label("shrink-after-compression-row>=2")
            if o["drops"] >= 2:
                ctx.label("multi-drop-in-one-update")
            if o["W"] <= p["window_size_thresh"]:
                ctx.label("window-below-thresh-after-cut")
    if fk.forked_steps:
        ctx.label("met-tie")
    if p["max_buckets"] == 1:
        ctx.label("max_buckets==1")
        if ndrift:
            ctx.label("max_buckets==1+shrink")
    if p["conservative_bound"]:
        ctx.label("conservative")
    if ndrift >= 2:
        ctx.label("shrinks>=2")
    if fk.states[0].compressed_rows >= 10:
        ctx.label("rows>=10")


def strat_model(tier):
    streams = st.one_of(
        vs.real_stream(max_total=600),
        vs.real_stream(max_total=600),
        vs.real_stream(level_range=1000, spreads=(0, 1, 64), max_total=300),
        vs.error_seq(max_total=500).map(lambda s: [float(v) for v in s]),
        st.tuples(st.integers(-30, 30), st.integers(1, 12), st.integers(20, 200)).map(
            lambda t: [t[0] + (i // t[1]) / 16 for i in range(t[2])]
        ),
    )
    @st.composite
    def long_case(draw):
        # long streams with few buckets per row: the bucket list grows to 10+ rows (buckets of 1024+ inputs)
        p = draw(params_strategy())
        p["max_buckets"] = draw(st.sampled_from([1, 1, 2]))
        p["new_sample_thresh"] = draw(st.sampled_from([16, 32, 33, 64]))
        n = draw(st.integers(2500, 5000))
        nseg = draw(st.integers(1, 3))
        cuts = sorted(draw(st.lists(st.integers(1500, n - 1), min_size=nseg - 1, max_size=nseg - 1)))
        levels = [draw(st.integers(-4, 4)) for _ in range(nseg)]
        noise = draw(st.lists(st.integers(-8, 8), min_size=37, max_size=37))
        xs = []
        for i in range(n):
            k = sum(1 for c in cuts if i >= c)
            xs.append(levels[k] + noise[(i * 7 + i // 37) % 37] / 16)
        return {"params": p, "xs": xs}

    base = st.fixed_dictionaries({"params": params_strategy(), "xs": streams})

    @st.composite
    def mixed(draw):
        return draw(long_case()) if draw(st.integers(0, 24)) == 0 else draw(base)

    return mixed()


# ----------------------------------------------------------------- accuracy
def check_accuracy(case, ctx):
    from menelaus.change_detection import ADWIN
    from menelaus.concept_drift import ADWINAccuracy

    p = case["params"]
    with sut(detector="ADWINAccuracy"):
        a = ADWINAccuracy(**p)
    with sut(detector="ADWIN"):
        b = ADWIN(**p)
    for k in PKEYS:
        if getattr(a, k, None) != p[k]:
            raise Violation(
                "adwinaccuracy-parameter-ignored",
                f"ADWINAccuracy({p}).{k} == {getattr(a, k, None)!r}",
                detector="ADWINAccuracy",
            )
    ndrift = 0
    for i, (yt, yp) in enumerate(case["pairs"]):
        with sut(detector="ADWINAccuracy"):
            a.update(yt, yp)
        with sut(detector="ADWIN"):
            b.update(1 if yt == yp else 0)
        oa = (a.drift_state, recs_norm(a.retraining_recs), float(a.mean()), float(a.variance()), a.total_samples, a.samples_since_reset)
        ob = (b.drift_state, recs_norm(b.retraining_recs), float(b.mean()), float(b.variance()), b.total_samples, b.samples_since_reset)
        if oa != ob:
            raise Violation(
                "adwinaccuracy-differs-from-adwin",
                f"params={p} after {i + 1} pairs: ADWINAccuracy {oa} vs ADWIN on indicators {ob}",
                detector="ADWINAccuracy",
                case={"params": p, "pairs": case["pairs"][: i + 1]},
            )
        ndrift += a.drift_state == "drift"
    if ndrift:
        ctx.label("shrink")
    if p != {"delta": 0.002, "max_buckets": 5, "new_sample_thresh": 32, "window_size_thresh": 10, "subwindow_size_thresh": 5, "conservative_bound": False}:
        ctx.label("non-default-params")


def strat_accuracy(tier):
    return st.fixed_dictionaries({"params": params_strategy(small=True), "pairs": vs.pair_seq(max_total=300)})


PROPERTY = {
    "id": "C03",
    "level": "exploration",
    "rule": (
        "adwin_model: Hypothesis streams of 10-600 values on the 1/16 grid (piecewise levels within +-40 or +-1000, ramps, 0/1 "
        "streams; one case in 25 is a 2500-5000 sample stream with max_buckets <= 2 so that the bucket list reaches 10+ rows) x delta in {0.002,0.05,0.3,0.9,1} x max_buckets 1..6 x new_sample_thresh 1..33 x window_size_thresh 0..40 x "
        "subwindow_size_thresh 1..8 x both bounds; after every update mean()/variance() are compared with the exact statistics of the "
        "reference window (tolerance 1e-9(1+R), 1e-9(1+R^2), R = largest |input|) and drift / retraining_recs with the reference cut rule; "
        "non-trivial = a shrink that happens when the bucket list has >= 3 rows (after compression into row >= 2). "
        "adwin_accuracy: ADWINAccuracy(**params) vs ADWIN(**params) on 1{y_true==y_pred}, all observables identical; "
        "non-trivial = non-default parameters and at least one shrink."
    ),
    "assumptions": [
        "delta=0 and subwindow_size_thresh=0 (division by zero in the documented formula) are outside the domain",
        "a split whose |mean difference| is within the variance-tolerance band of epsilon-cut admits both outcomes",
    ],
    "subchecks": [
        SubCheck(
            "adwin_model",
            check_model,
            strategy=strat_model,
            nontrivial=lambda L: "shrink-after-compression-row>=2" in L,
            quick=1200,
            thorough=90000,
            shards_quick=16,
        ),
        SubCheck(
            "adwin_accuracy",
            check_accuracy,
            strategy=strat_accuracy,
            nontrivial=lambda L: "shrink" in L and "non-default-params" in L,
            quick=400,
            thorough=24000,
            shards_quick=4,
        ),
    ],
}
