"""C04 - CUSUM and Page-Hinkley apply their sequential tests to the current observations."""
import numpy as np
from hypothesis import strategies as st

from vlib import strategies as vs
from vlib.models.cusum_ph import CusumModel, PageHinkleyModel
from vlib.runner import Decoy, SubCheck, Violation, sut
from vlib.tolerant import Forker, close


def cell(v):
    return np.asarray(v).ravel()[0]


# ------------------------------------------------------------------- CUSUM
def check_cusum(case, ctx):
    from menelaus.change_detection import CUSUM

    p = case["params"]
    xs = case["xs"]
    with sut(detector="CUSUM"):
        det = CUSUM(**p)
    decoy = Decoy(lambda: CUSUM(**p), lambda d, v: d.update(v))
    fk = Forker(
        CusumModel(p["target"], p["sd_hat"], p["burn_in"], p["delta"], p["threshold"], p["direction"]),
        copier=lambda m: m.clone(),
    )
    nalarm = 0
    for i, x in enumerate(xs):
        raised = None
        decoy.step(3.0 * x + (i % 5))
        try:
            with sut(detector="CUSUM", allow=(ValueError,)):
                det.update(x)
        except ValueError as e:
            raised = e
        obs = None if raised else det.drift_state
        verdict, outs = fk.advance(lambda m, ch: m.step(x, ch), lambda o: o["degenerate"] or (raised is None and o["state"] == obs))
        if verdict == "ok" and outs[0]["degenerate"]:
            ctx.label("truncated-sigma-zero")
            break
        if raised is not None:
            raise Violation(
                "unexpected-valueerror",
                f"CUSUM({p}) raised {raised!r} at sample {i} although the standard deviation of the estimation window is not 0",
                detector="CUSUM",
                case={"params": p, "xs": xs[: i + 1]},
            )
        if verdict == "mismatch":
            raise Violation(
                "cusum-decision-mismatch",
                f"CUSUM({p}) sample {i} (x={x}): implementation state={obs!r}, reference test says "
                f"{sorted({str(o['state']) for o in outs})} (epoch sample {outs[0].get('n')}, s_h={outs[0].get('sh')}, s_l={outs[0].get('sl')})",
                detector="CUSUM",
                case={"params": p, "xs": xs[: i + 1]},
            )
        if verdict == "overflow":
            ctx.label("truncated-ambiguous")
            break
        if obs == "drift":
            nalarm += 1
            if fk.states[0].reestimated:
                ctx.label("alarm-in-reestimated-epoch")
    if fk.forked_steps:
        ctx.label("met-tie")
    ctx.label("dir=" + str(p["direction"]), "known-target" if p["target"] is not None else "estimated-target")
    if case.get("scale", 1.0) != 1.0:
        ctx.label("rescaled-units")
    if nalarm >= 2:
        ctx.label("alarms>=2")


def strat_cusum(tier):
    @st.composite
    def s(draw):
        known = draw(st.integers(0, 9)) < 3
        p = {
            "target": draw(vs.dyadic(-20, 20)) if known else None,
            "sd_hat": draw(st.sampled_from([0.5, 1.0, 2.0, 4.0])) if known else None,
            "burn_in": draw(st.integers(2, 12)),
            "delta": draw(st.sampled_from([0.0, 0.005, 0.5])),
            "threshold": draw(st.sampled_from([0.5, 1, 2, 3, 5, 8])),
            "direction": draw(st.sampled_from([None, "positive", "negative"])),
        }
        xs = draw(vs.real_stream(min_segments=3, max_segments=9, seg_min=6, seg_max=60, max_total=400, level_range=20, spreads=(1, 1, 2, 8)))
        # the test standardises its observations, so the unit of measurement is arbitrary: exact power-of-two rescaling
        scale = draw(st.sampled_from([1.0, 1.0, 1.0, 2.0**-30, 2.0**-40, 2.0**20]))
        if scale != 1.0:
            xs = [x * scale for x in xs]
            if p["target"] is not None:
                p["target"] = p["target"] * scale
                p["sd_hat"] = p["sd_hat"] * scale
        return {"params": p, "xs": xs, "scale": scale}

    return s()


# ------------------------------------------------------------ Page-Hinkley
COLS = (
    "change_scores",
    "page_hinkley_values",
    "page_hinkley_differences",
    "theta_threshold",
    "drift_detected",
    "maximum_sum_values",
    "minimum_sum_values",
    "mean_values",
)


def check_ph(case, ctx):
    from menelaus.change_detection import PageHinkley

    p = case["params"]
    xs = case["xs"]
    with sut(detector="PageHinkley"):
        det = PageHinkley(**p)
    decoy = Decoy(lambda: PageHinkley(**p), lambda d, v: d.update(v))
    fk = Forker(PageHinkleyModel(p["delta"], p["threshold"], p["burn_in"], p["direction"], exact_zero=True), copier=lambda m: m.clone())
    nalarm = 0
    every = case.get("df_every", 1)
    for i, x in enumerate(xs):
        decoy.step(3.0 * x + (i % 5))
        with sut(detector="PageHinkley"):
            det.update(x)
            obs = det.drift_state
            df = det.to_dataframe() if (i % every == 0 or obs == "drift" or i == len(xs) - 1) else None
        row = None
        if df is not None:
            if list(df.columns) != list(COLS):
                raise Violation("ph-dataframe-columns", f"to_dataframe() columns {list(df.columns)}", detector="PageHinkley")
            last = df.iloc[-1]
            row = {c: (bool(cell(last[c])) if c == "drift_detected" else float(cell(last[c]))) for c in COLS}

        def accept(o):
            if o["state"] != obs:
                return False
            if row is None:
                return True
            if len(df) != o["rows"]:
                return False
            for c in COLS:
                if c == "drift_detected":
                    if row[c] != o["row"][c]:
                        return False
                elif not close(row[c], o["row"][c], 1e-9, 1e-9):
                    return False
            return True

        verdict, outs = fk.advance(lambda m, ch: m.step(x, ch), accept)
        if verdict == "mismatch":
            kind = "ph-decision-mismatch" if all(o["state"] != obs for o in outs) else "ph-statistics-mismatch"
            raise Violation(
                kind,
                f"PageHinkley({p}) sample {i} (x={x}): implementation state={obs!r} rows={None if df is None else len(df)} last row={row}; reference: {outs[:2]}",
                detector="PageHinkley",
                case={"params": p, "xs": xs[: i + 1], "df_every": every},
            )
        if verdict == "overflow":
            ctx.label("truncated-ambiguous")
            break
        nalarm += obs == "drift"
    if fk.forked_steps:
        ctx.label("met-tie")
    if fk.states[0].exact_tests:
        ctx.label("exact-zero-epoch")
    ctx.label("dir=" + str(p["direction"]), f"burn_in={min(p['burn_in'], 2)}")
    if nalarm >= 2:
        ctx.label("alarms>=2")


def strat_ph(tier):
    @st.composite
    def s(draw):
        p = {
            "delta": draw(st.sampled_from([0.0, 0.01, 0.5])),
            "threshold": draw(st.sampled_from([0.5, 2, 5, 20])),
            "burn_in": draw(st.integers(0, 10)),
            "direction": draw(st.sampled_from(["positive", "negative"])),
        }
        xs = draw(vs.real_stream(min_segments=3, max_segments=8, seg_min=6, seg_max=50, max_total=300, level_range=20, spreads=(1, 1, 2, 8)))
        if draw(st.integers(0, 5)) == 0:
            # a stretch of exact zeros past the burn-in (error indicator of a perfect classifier): statistic and alarm level are both 0
            zeros = [0.0] * (p["burn_in"] + draw(st.integers(2, 30)))
            k = draw(st.integers(0, 1))
            xs = (zeros + xs) if k == 0 else (xs + zeros)
            if p["delta"] == 0.01:
                p["delta"] = 0.0078125
        return {"params": p, "xs": xs, "df_every": draw(st.sampled_from([1, 3]))}

    return s()


PROPERTY = {
    "id": "C04",
    "level": "exploration",
    "rule": (
        "cusum: Hypothesis streams (3-9 stationary segments, 400 samples max, 1/16 grid) x burn_in 2..12 x delta x threshold x "
        "direction x known/estimated target; drift_state after every update vs. the reference two-/one-sided CUSUM on the current "
        "observations with (mu, sigma) given / from the first burn_in / re-estimated from the last burn_in observations; non-trivial = "
        ">= 2 alarms, i.e. at least one alarm in an epoch with re-estimated constants. page_hinkley: same streams x burn_in 0..10; "
        "state and every to_dataframe() column vs. exact-rational recurrences; one case in six carries a stretch of exact zeros past the burn-in; non-trivial = >= 2 alarms."
    ),
    "assumptions": [
        "CUSUM burn_in < 2 and estimation windows with zero variance are outside the documented domain (case truncated, counted)",
        "decisions within 1e-9 relative of the threshold admit both outcomes - except Page-Hinkley on an epoch of exact zeros (error indicator of a perfect classifier), where statistic and alarm level are 0 in every evaluation order and the documented 'larger than' is decided strictly",
        "Page-Hinkley's alarm level is threshold * running mean, as documented in the class",
    ],
    "subchecks": [
        SubCheck("cusum", check_cusum, strategy=strat_cusum, nontrivial=lambda L: "alarms>=2" in L, quick=1000, thorough=50000, shards_quick=8),
        SubCheck("page_hinkley", check_ph, strategy=strat_ph, nontrivial=lambda L: "alarms>=2" in L, quick=700, thorough=50000, shards_quick=8),
    ],
}
