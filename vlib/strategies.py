"""Hypothesis strategies shared by the properties.  Everything returned is
JSON-able (ints, floats on dyadic grids, lists, dicts with string keys)."""
from hypothesis import strategies as st

GRID = 16  # values are multiples of 1/16: exactly representable, exact sums


def dyadic(lo, hi, denom=GRID):
    return st.integers(int(lo * denom), int(hi * denom)).map(lambda k: k / denom)


@st.composite
def error_seq(draw, min_segments=1, max_segments=6, seg_min=5, seg_max=120, max_total=600):
    """Piecewise-stationary 0/1 error sequence (1 = misclassified)."""
    nseg = draw(st.integers(min_segments, max_segments))
    out = []
    for _ in range(nseg):
        p = draw(st.sampled_from([0, 30, 100, 200, 350, 500, 700, 900, 1000]))
        length = draw(st.integers(seg_min, seg_max))
        us = draw(st.lists(st.integers(0, 999), min_size=length, max_size=length))
        out += [1 if u < p else 0 for u in us]
        if len(out) >= max_total:
            break
    return out[:max_total]


@st.composite
def pair_seq(draw, min_segments=1, max_segments=5, seg_min=5, seg_max=60, max_total=300):
    """(y_true, y_pred) in {0,1}^2 with segment-wise cell probabilities."""
    nseg = draw(st.integers(min_segments, max_segments))
    out = []
    for _ in range(nseg):
        p_true = draw(st.sampled_from([100, 300, 500, 700, 900]))
        acc1 = draw(st.sampled_from([100, 400, 700, 900, 1000]))  # P(pred=1 | true=1)
        acc0 = draw(st.sampled_from([0, 100, 300, 600, 900]))  # P(pred=1 | true=0)
        length = draw(st.integers(seg_min, seg_max))
        us = draw(st.lists(st.tuples(st.integers(0, 999), st.integers(0, 999)), min_size=length, max_size=length))
        for a, b in us:
            yt = 1 if a < p_true else 0
            yp = 1 if b < (acc1 if yt else acc0) else 0
            out.append([yt, yp])
        if len(out) >= max_total:
            break
    return out[:max_total]


@st.composite
def real_stream(draw, min_segments=2, max_segments=7, seg_min=5, seg_max=70, max_total=400, level_range=40, spreads=(0, 1, 2, 8)):
    """Piecewise-stationary real stream on the 1/16 grid: level shifts, returns to
    an old level and back-to-back drifts are common."""
    nseg = draw(st.integers(min_segments, max_segments))
    levels = draw(st.lists(st.integers(-level_range, level_range), min_size=1, max_size=3))
    out = []
    for _ in range(nseg):
        lvl = draw(st.sampled_from(levels)) if draw(st.booleans()) else draw(st.integers(-level_range, level_range))
        sp = draw(st.sampled_from(list(spreads)))
        length = draw(st.integers(seg_min, seg_max))
        if sp == 0:
            out += [float(lvl)] * length
        else:
            ks = draw(st.lists(st.integers(-sp * GRID, sp * GRID), min_size=length, max_size=length))
            out += [(lvl * GRID + k) / GRID for k in ks]
        if len(out) >= max_total:
            break
    return out[:max_total]


@st.composite
def row_stream(draw, ncols, min_segments=2, max_segments=6, seg_min=4, seg_max=40, max_total=200, spread=2, shift=6, denom=8):
    """Stream of feature rows (lists of ncols floats on a 1/denom grid) with level shifts."""
    nseg = draw(st.integers(min_segments, max_segments))
    out = []
    loc = [0] * ncols
    for s in range(nseg):
        if s:
            loc = [l + draw(st.sampled_from([0, 0, -shift, shift, 2 * shift])) for l in loc]
        length = draw(st.integers(seg_min, seg_max))
        ks = draw(
            st.lists(
                st.lists(st.integers(-spread * denom, spread * denom), min_size=ncols, max_size=ncols),
                min_size=length,
                max_size=length,
            )
        )
        out += [[(loc[j] * denom + k[j]) / denom for j in range(ncols)] for k in ks]
        if len(out) >= max_total:
            break
    return out[:max_total]


@st.composite
def batch(draw, ncols, rows_min=6, rows_max=30, loc=None, spread=2, denom=8):
    n = draw(st.integers(rows_min, rows_max))
    loc = loc or [0] * ncols
    ks = draw(
        st.lists(st.lists(st.integers(-spread * denom, spread * denom), min_size=ncols, max_size=ncols), min_size=n, max_size=n)
    )
    return [[(loc[j] * denom + k[j]) / denom for j in range(ncols)] for k in ks]


@st.composite
def batch_history(draw, ncols, n_min=4, n_max=12, rows_min=6, rows_max=30, spread=2, shift=4, denom=8, p_shift=0.35):
    """Reference + test batches with location shifts (list of batches)."""
    nb = draw(st.integers(n_min, n_max))
    loc = [0] * ncols
    out = []
    for i in range(nb):
        if i and draw(st.integers(0, 99)) < p_shift * 100:
            loc = [l + draw(st.sampled_from([-shift, shift, 0, 2 * shift])) for l in loc]
        sp = draw(st.sampled_from([spread, spread, 1, 2 * spread]))
        out.append(draw(batch(ncols, rows_min, rows_max, loc, sp, denom)))
    return out


seed_base = st.integers(0, 2**20)
