"""Detector catalogue shared by C01, C02, C12, C14, C15, C16, C17 (DESIGN 2.2).

One ``Spec`` per public detector: small, frequently-firing parameter settings,
a history strategy built from piecewise-stationary segments, the public call
and the public observation.  Everything a strategy returns is JSON-able.
"""
import numpy as np
from hypothesis import strategies as st

from vlib import strategies as vs

RATES = ["tpr", "tnr", "ppv", "npv"]


def _cls(path):
    mod, name = path.rsplit(".", 1)
    import importlib

    return getattr(importlib.import_module(mod), name)


def total_divergence(p, q):
    """User-supplied divergence for HDDDM/CDBD (total variation of two count vectors)."""
    p = np.asarray(p, dtype=float)
    q = np.asarray(q, dtype=float)
    return 0.5 * float(np.sum(np.abs(p / p.sum() - q / q.sum())))


class Spec:
    def __init__(self, name, path, family, kind, params, ncols=None, uses_rng=False, recs=False, univariate=False):
        self.name = name
        self.path = path
        self.family = family  # "stream" | "batch"
        self.kind = kind  # "x" | "y"
        self._params = params
        self._ncols = ncols
        self.uses_rng = uses_rng
        self.recs = recs
        self.univariate = univariate

    def cls(self):
        return _cls(self.path)

    def params(self):
        return self._params

    def make(self, params):
        p = dict(params)
        if p.get("divergence") == "TV":
            p["divergence"] = total_divergence
        return self.cls()(**p)

    def ncols(self):
        return self._ncols if self._ncols is not None else st.just(0)

    @property
    def total_attr(self):
        return "total_samples" if self.family == "stream" else "total_batches"

    @property
    def since_attr(self):
        return "samples_since_reset" if self.family == "stream" else "batches_since_reset"


ADWIN_PARAMS = st.fixed_dictionaries(
    {
        "delta": st.sampled_from([0.05, 0.3, 0.9, 1.0, 0.002]),
        "max_buckets": st.integers(1, 6),
        "new_sample_thresh": st.integers(1, 16),
        "window_size_thresh": st.integers(0, 20),
        "subwindow_size_thresh": st.integers(1, 6),
        "conservative_bound": st.sampled_from([False, False, True]),
    }
)


@st.composite
def _pcacd_params(draw):
    w = draw(st.integers(8, 30))
    sp = draw(st.sampled_from([0.05, 0.1, 0.2, 0.5]))
    if round(sp * w) < 1:
        sp = 0.5
    return {
        "window_size": w,
        "ev_threshold": draw(st.sampled_from([0.5, 0.9, 0.99, 0.999])),
        "delta": draw(st.sampled_from([0.0, 0.01, 0.1])),
        "divergence_metric": draw(st.sampled_from(["kl", "intersection"])),
        "sample_period": sp,
        "online_scaling": draw(st.sampled_from([True, True, False])),
    }


@st.composite
def _cusum_params(draw):
    p = {
        "burn_in": draw(st.integers(2, 12)),
        "delta": draw(st.sampled_from([0.0, 0.005, 0.5])),
        "threshold": draw(st.sampled_from([0.5, 1, 2, 3, 5, 8])),
        "direction": draw(st.sampled_from([None, "positive", "negative"])),
    }
    if draw(st.integers(0, 3)) == 0:  # known mean / standard deviation: the sums run from the first sample on
        p["target"] = draw(st.integers(-20 * 16, 20 * 16).map(lambda k: k / 16))
        p["sd_hat"] = draw(st.sampled_from([0.5, 1.0, 2.0, 4.0]))
    return p


def _hdm_params(div_choices):
    @st.composite
    def s(draw):
        stat = draw(st.sampled_from(["tstat", "stdev"]))
        return {
            "detect_batch": draw(st.integers(1, 3)),
            "divergence": draw(st.sampled_from(div_choices)),
            "statistic": stat,
            "significance": draw(st.sampled_from([0.05, 0.2, 0.5])) if stat == "tstat" else draw(st.sampled_from([0.0, 0.5, 1.0, 2.0])),
            "subsets": draw(st.integers(2, 6)),
        }

    return s()


SPECS = {
    "ADWIN": Spec("ADWIN", "menelaus.change_detection.ADWIN", "stream", "x", ADWIN_PARAMS, st.just(1), recs=True, univariate=True),
    "ADWINAccuracy": Spec("ADWINAccuracy", "menelaus.concept_drift.ADWINAccuracy", "stream", "y", ADWIN_PARAMS, recs=True),
    "CUSUM": Spec(
        "CUSUM",
        "menelaus.change_detection.CUSUM",
        "stream",
        "x",
        _cusum_params(),
        st.just(1),
        univariate=True,
    ),
    "PageHinkley": Spec(
        "PageHinkley",
        "menelaus.change_detection.PageHinkley",
        "stream",
        "x",
        st.fixed_dictionaries(
            {
                "delta": st.sampled_from([0.0, 0.01, 0.5]),
                "threshold": st.sampled_from([0.5, 2, 5, 20]),
                "burn_in": st.integers(0, 10),
                "direction": st.sampled_from(["positive", "negative"]),
            }
        ),
        st.just(1),
        univariate=True,
    ),
    "DDM": Spec(
        "DDM",
        "menelaus.concept_drift.DDM",
        "stream",
        "y",
        st.fixed_dictionaries(
            {"n_threshold": st.integers(1, 12), "warning_scale": st.sampled_from([1, 1.5, 2]), "drift_scale": st.sampled_from([2, 2.5, 3])}
        ),
        recs=True,
    ),
    "EDDM": Spec(
        "EDDM",
        "menelaus.concept_drift.EDDM",
        "stream",
        "y",
        st.fixed_dictionaries(
            {"n_threshold": st.integers(1, 8), "warning_thresh": st.sampled_from([0.99, 0.95, 0.9]), "drift_thresh": st.sampled_from([0.9, 0.8, 0.5])}
        ),
        recs=True,
    ),
    "STEPD": Spec(
        "STEPD",
        "menelaus.concept_drift.STEPD",
        "stream",
        "y",
        st.fixed_dictionaries(
            {"window_size": st.integers(1, 10), "alpha_warning": st.sampled_from([0.05, 0.2, 0.3]), "alpha_drift": st.sampled_from([0.003, 0.05, 0.1])}
        ),
        recs=True,
    ),
    "LinearFourRates": Spec(
        "LinearFourRates",
        "menelaus.concept_drift.LinearFourRates",
        "stream",
        "y",
        st.fixed_dictionaries(
            {
                "time_decay_factor": st.sampled_from([0.5, 0.8, 0.9, 0.95]),
                # independent draws: a warning level stricter than the detection level is a legal setting too
                "warning_level": st.sampled_from([0.01, 0.1, 0.2, 0.3]),
                "detect_level": st.sampled_from([0.01, 0.05, 0.1, 0.2]),
                "burn_in": st.integers(0, 20),
                "num_mc": st.integers(5, 30),
                "subsample": st.integers(1, 4),
                "rates_tracked": st.lists(st.sampled_from(RATES), unique=True, min_size=1, max_size=4).map(lambda l: sorted(l, key=RATES.index)),
                "round_val": st.sampled_from([1, 2, 4]),
            }
        ),
        uses_rng=True,
        recs=True,
    ),
    "KdqTreeStreaming": Spec(
        "KdqTreeStreaming",
        "menelaus.data_drift.KdqTreeStreaming",
        "stream",
        "x",
        st.fixed_dictionaries(
            {
                "window_size": st.integers(3, 20),
                "persistence": st.sampled_from([0, 0.05, 0.2, 0.5, 1]),
                "alpha": st.sampled_from([0.05, 0.2, 0.4, 0.5]),
                "bootstrap_samples": st.integers(3, 15),
                "count_ubound": st.integers(1, 8),
            }
        ),
        st.integers(1, 3),
        uses_rng=True,
    ),
    "PCACD": Spec("PCACD", "menelaus.data_drift.PCACD", "stream", "x", _pcacd_params(), st.integers(2, 4)),
    "KdqTreeBatch": Spec(
        "KdqTreeBatch",
        "menelaus.data_drift.KdqTreeBatch",
        "batch",
        "x",
        st.fixed_dictionaries(
            {"alpha": st.sampled_from([0.05, 0.2, 0.4, 0.5]), "bootstrap_samples": st.integers(3, 15), "count_ubound": st.integers(1, 8)}
        ),
        st.integers(1, 3),
        uses_rng=True,
    ),
    "HDDDM": Spec("HDDDM", "menelaus.data_drift.HDDDM", "batch", "x", _hdm_params(["H", "KL", "TV"]), st.integers(1, 3), uses_rng=True),
    "CDBD": Spec("CDBD", "menelaus.data_drift.CDBD", "batch", "x", _hdm_params(["KL", "H", "TV"]), st.just(1), uses_rng=True, univariate=True),
    "NNDVI": Spec(
        "NNDVI",
        "menelaus.data_drift.NNDVI",
        "batch",
        "x",
        st.fixed_dictionaries({"k_nn": st.integers(1, 5), "sampling_times": st.integers(2, 20), "alpha": st.sampled_from([0.05, 0.2, 0.4, 0.5])}),
        st.integers(1, 3),
        uses_rng=True,
    ),
}

STREAM_X = ["ADWIN", "CUSUM", "PageHinkley", "KdqTreeStreaming", "PCACD"]
STREAM_Y = ["ADWINAccuracy", "DDM", "EDDM", "STEPD", "LinearFourRates"]
BATCH = ["KdqTreeBatch", "HDDDM", "CDBD", "NNDVI"]
ALL14 = STREAM_X + STREAM_Y + BATCH


# ----------------------------------------------------------------------------
# histories
# ----------------------------------------------------------------------------
def _jitter(rows):
    """Make every column non-constant inside any window (PCACD needs variance)."""
    out = []
    for i, r in enumerate(rows):
        out.append([v + ((i * (3 + 2 * j) + j) % 7) / 64.0 for j, v in enumerate(r)])
    return out


@st.composite
def history(draw, name, params, ncols, long=True):
    """Multi-epoch history for detector ``name``: list of items.
    stream/x: rows (lists of floats); stream/y: [y_true, y_pred]; batch: batches (lists of rows)."""
    spec = SPECS[name]
    if spec.kind == "y":
        mx = 150 if name == "LinearFourRates" else 300
        return draw(vs.pair_seq(min_segments=2, max_segments=6, seg_min=5, seg_max=60, max_total=mx))
    if spec.family == "stream":
        if name in ("ADWIN", "CUSUM", "PageHinkley"):
            sp = (0, 1, 2, 8) if name == "ADWIN" else (1, 1, 2, 8)
            xs = draw(vs.real_stream(min_segments=3, max_segments=8, seg_min=5, seg_max=60, max_total=350, level_range=20, spreads=sp))
            return [[x] for x in xs]
        if name == "KdqTreeStreaming":
            w = params["window_size"]
            return draw(vs.row_stream(ncols, min_segments=3, max_segments=8, seg_min=max(3, w // 2), seg_max=3 * w, max_total=9 * w, spread=2, shift=6))
        if name == "PCACD":
            w = params["window_size"]
            rows = draw(vs.row_stream(ncols, min_segments=3, max_segments=7, seg_min=w // 2, seg_max=2 * w, max_total=7 * w, spread=2, shift=6))
            return _jitter(rows)
    # batch
    rows_min = 8
    return draw(vs.batch_history(ncols, n_min=4, n_max=12, rows_min=rows_min, rows_max=26, spread=2, shift=4, p_shift=0.35))


@st.composite
def detector_case(draw, names=None, name=None):
    name = name or draw(st.sampled_from(names))
    spec = SPECS[name]
    params = draw(spec.params())
    ncols = draw(spec.ncols())
    items = draw(history(name, params, ncols))
    return {"det": name, "params": params, "ncols": ncols, "items": items, "seed_base": draw(vs.seed_base)}


# ----------------------------------------------------------------------------
# calls and observations
# ----------------------------------------------------------------------------
def as_input(spec, item):
    if spec.kind == "y":
        return item
    if spec.family == "stream":
        return np.array([item], dtype=float)
    return np.array(item, dtype=float)


def call(spec, det, item, first=False, seed=None, kdq_first_update=False):
    """Perform the public call for ``item`` (already converted or raw)."""
    if seed is not None:
        np.random.seed(seed)
    if spec.kind == "y":
        return det.update(item[0], item[1])
    X = item if not isinstance(item, list) else as_input(spec, item)
    if spec.family == "batch" and first and not (spec.name == "KdqTreeBatch" and kdq_first_update):
        return det.set_reference(X)
    return det.update(X)


def norm_recs(r):
    return [None if v is None else int(v) for v in list(r)]


def _f(v):
    return None if v is None else float(v)


def observe(det, deep=False):
    o = {"state": det.drift_state}
    for a in ("total_samples", "samples_since_reset", "total_batches", "batches_since_reset", "total_updates", "updates_since_reset"):
        if hasattr(det, a):
            o[a] = int(getattr(det, a))
    if hasattr(det, "retraining_recs"):
        o["recs"] = norm_recs(det.retraining_recs)
    cn = type(det).__name__
    if cn in ("ADWIN", "ADWINAccuracy") or cn.endswith("ADWIN"):
        o["mean"] = _f(det.mean())
        o["variance"] = _f(det.variance())
    if hasattr(det, "recent_accuracy"):
        o["acc"] = [_f(det.recent_accuracy()), _f(det.past_accuracy()), _f(det.overall_accuracy())]
    if hasattr(det, "all_drift_states"):
        o["all_states"] = list(det.all_drift_states)
    if hasattr(det, "epsilon_values"):
        o["current_distance"] = _f(getattr(det, "current_distance", None))
        o["beta"] = _f(getattr(det, "beta", None))
        o["reference_n"] = getattr(det, "reference_n", None)
        o["distances"] = {int(k): float(v) for k, v in det.distances.items()}
        o["epsilon_values"] = {int(k): float(v) for k, v in det.epsilon_values.items()}
        o["thresholds"] = {int(k): float(v) for k, v in det.thresholds.items()}
    if hasattr(det, "reference_batch"):
        o["reference_batch"] = np.asarray(det.reference_batch).tolist()
    if hasattr(det, "num_pcs"):
        o["num_pcs"] = det.num_pcs
    if deep:
        if hasattr(det, "to_dataframe"):
            df = det.to_dataframe()
            o["df"] = [[float(np.asarray(v).ravel()[0]) for v in row] for row in df.itertuples(index=False)]
        if hasattr(det, "to_plotly_dataframe") and getattr(det, "_kdqtree", None) is not None:
            try:
                df = det.to_plotly_dataframe()
                o["kdq_counts"] = [[int(a), int(b), int(c)] for a, b, c in zip(df["depth"], df["cell_count"], df["count_diff"])]
            except Exception as e:  # pragma: no cover
                o["kdq_counts"] = "error:" + type(e).__name__
    return o


def nndvi_domain_ok(det, X):
    """NNDVI needs k_nn <= number of distinct pooled points (scikit-learn rejects the query otherwise)."""
    ref = getattr(det, "reference_batch", None)
    if ref is None:
        return True
    pooled = np.unique(np.vstack([np.asarray(ref), np.asarray(X)]), axis=0)
    return len(pooled) >= det.k_nn


def is_domain_end(name, det, exc):
    """Is this ValueError the detector's documented refusal of degenerate data rather than a defect?
    Decided from the data, not from the message text: CUSUM refuses a zero standard deviation (public
    attribute ``sd_hat``); PCACD's kernel density estimate is refused by scikit-learn itself when a window of
    projected scores has zero spread (the exception is raised inside scikit-learn)."""
    import traceback

    if name == "CUSUM":
        sd = getattr(det, "sd_hat", None)
        try:
            return sd is not None and float(np.asarray(sd).ravel()[0]) == 0.0
        except Exception:
            return False
    if name == "PCACD":
        tb = traceback.extract_tb(exc.__traceback__)
        return bool(tb) and "/sklearn/" in tb[-1].filename.replace("\\", "/")
    return False
