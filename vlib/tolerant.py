"""Tolerant comparison and the fork-on-ambiguity model driver (DESIGN 3.3).

A reference model takes every floating-point *decision* through a ``Chooser``:
outside the tolerance band the model's own answer is binding, inside the band
both outcomes are admissible.  ``fork_step`` enumerates every admissible
combination for one step; the driver keeps the set of model states that are
consistent with what the implementation showed so far.
"""
import copy

MAX_STATES = 64


class Chooser:
    def __init__(self, preset=()):
        self.preset = list(preset)
        self.i = 0
        self.ambiguous = 0

    def _choose(self):
        self.ambiguous += 1
        if self.i < len(self.preset):
            c = self.preset[self.i]
        else:
            c = False
            self.preset.append(False)
        self.i += 1
        return c

    def gt(self, a, b, tol):
        """a > b, tolerant."""
        d = a - b
        if d > tol:
            return True
        if d < -tol:
            return False
        return self._choose()

    def ge(self, a, b, tol):
        d = a - b
        if d > tol:
            return True
        if d < -tol:
            return False
        return self._choose()

    def lt(self, a, b, tol):
        return self.gt(b, a, tol)

    def le(self, a, b, tol):
        return self.ge(b, a, tol)

    def either(self):
        """An explicitly two-valued choice (used for knife-edge situations)."""
        return self._choose()


def fork_step(state, stepfn, copier=copy.deepcopy):
    """Run ``stepfn(state_copy, chooser)`` for every admissible combination of
    ambiguous decisions.  Returns list of (new_state, output, n_ambiguous)."""
    out = []
    preset = []
    while True:
        s2 = copier(state)
        ch = Chooser(preset)
        o = stepfn(s2, ch)
        out.append((s2, o, ch.ambiguous))
        p = ch.preset[: ch.i]
        while p and p[-1]:
            p.pop()
        if not p:
            break
        p[-1] = True
        preset = p
        if len(out) > 4 * MAX_STATES:
            break
    return out


class Forker:
    """Keeps the set of admissible model states.

    ``advance(stepfn, accept)``: stepfn(state, chooser) -> output;
    accept(output) -> bool (does the output agree with the implementation?).
    Returns ("ok", outputs_alive) | ("mismatch", all_outputs) | ("overflow", None).
    """

    def __init__(self, state, copier=copy.deepcopy, key=None):
        self.states = [state]
        self.copier = copier
        self.key = key  # optional: state -> hashable; equal keys are merged
        self.forked_steps = 0

    def advance(self, stepfn, accept):
        alive = []
        outs = []
        amb = False
        for s in self.states:
            for s2, o, na in fork_step(s, stepfn, self.copier):
                outs.append(o)
                amb = amb or na > 0
                if accept(o):
                    alive.append((s2, o))
        if amb:
            self.forked_steps += 1
        if not alive:
            return "mismatch", outs
        if self.key is not None and len(alive) > 1:
            seen = {}
            for s2, o in alive:
                seen.setdefault(self.key(s2), (s2, o))
            alive = list(seen.values())
        if len(alive) > MAX_STATES:
            return "overflow", None
        self.states = [s for s, _ in alive]
        return "ok", [o for _, o in alive]


def close(a, b, rel=1e-9, abs_=1e-9):
    if a is None or b is None:
        return a is None and b is None
    a = float(a)
    b = float(b)
    if a == b:
        return True
    return abs(a - b) <= max(abs_, rel * max(abs(a), abs(b)))
